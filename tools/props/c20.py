"""C20 - standard errors are the scaled quadratic form of the descriptors."""
import math
import os
from fractions import Fraction
import vlib
import thermogen
from props import c01
from vlib import g_list, g_Q, g_str

COQ_DEPS = ['Thermo/Corr.vo', 'Lib/Psd_cert.vo']
GEN = ['uq']

HEADER = '''From Coq Require Import List NArith Bool QArith Qabs.
From PG Require Import Common.Strs Thermo.Num Thermo.Estimate Thermo.Corr.
Import ListNotations.
Definition tol : Q := 1 # 1000000000.
(* rmse, mapping, impl SE (None = ValueError) ; basis and M are per-file *)
Definition okse (basis : list str) (M : list (list Q)) (c : Q * list (str * Q) * option Q) : bool :=
  let '(rmse, g, ise) := c in
  match se_square (K:=Qops) rmse basis M g, ise with
  | Ok v, Some s => close tol (Qabs v + (1 # 1000000)) v (s * s) && Qle_bool 0 s
  | Raise ValueErr, None => true
  | _, _ => false end.
'''


def q(x):
    return vlib.g_Qf(x)


def run(ctx):
    ctx.assumptions += [
        'model Thermo/Estimate.v (count_vector, quad_form, se_square) hand-written; tie = correspondence over exact rationals',
        'square root and RMSE correlation values are taken from the implementation; compared through SE^2 = RMSE^2 * x\'Mx',
        'theorems over the reals: standard-library real-number axioms as listed by Print Assumptions',
        'positive semi-definiteness of the shipped matrices is C14\'s certificate']
    rng = ctx.rng
    libs = list(thermogen.SHIPPED)
    syn = [thermogen.rnd_library(rng, os.path.join(vlib.WORK, 'c20_syn_%d' % i), with_uq=True, uq_kind=('nonsym', 'int', 'float', 'nonsym')[i % 4])['path']
           for i in range(ctx.n(4, 30))]
    infos = vlib.run_impl_sharded('thermo', [{'op': 'libinfo', 'lib': s} for s in libs + syn], timeout=900)
    jobs = []
    uqs = {}
    byname_of = {}
    for spec, info in zip(libs + syn, infos):
        if 'groups' not in info:
            ctx.broken.append('library %s did not load: %s' % (spec, str(info)[:300]))
            continue
        if not info['uq']:
            continue
        uq = info['uq']
        uqs[spec] = uq
        basis = uq['descriptors']
        byname = {g['name']: g for g in info['groups']}
        byname_of[spec] = byname
        usable = [d for d in basis if d in byname and byname[d]['has']]
        Ts = [298.15, 500.0, round(rng.uniform(300, 1000), 1)]

        def add(mp, kind):
            jobs.append({'op': 'estimate', 'lib': spec, 'mapping': mp, 'Ts': Ts, 'props': ('cp', 'h', 's'), 'se': True, 'kind': kind})
        units = usable if (ctx.thorough() or len(usable) < 30) else rng.sample(usable, 30)
        for d in units:
            add([[d, 1]], 'unit')
        # one descriptor with a count other than 1 (SE scales with |count|, not with its square root)
        for d in rng.sample(usable, min(len(usable), ctx.n(6, 40))):
            add([[d, rng.choice([2, 3, 0.25, -2, -1, 0.5, 10, 0])]], 'single-count')
        for _ in range(ctx.n(12, 200)):
            sel = rng.sample(usable, min(rng.choice([2, 3, 5, 9]), len(usable)))
            mp = [[d, c01.rnd_count(rng)] for d in sel]
            add(mp, 'random')
            k = rng.choice([2, -1, -2.5, 0.5, 0, 3])
            add([[d, k * c] for d, c in mp], 'scaled:%r' % k)
            p = list(mp)
            rng.shuffle(p)
            add(p, 'permuted')
        outside = [g['name'] for g in info['groups'] if g['has'] and g['name'] not in basis]
        # rejected mappings are interleaved with the accepted ones (same library object): a rejected call must leave nothing behind.
        # The in-basis descriptor comes first in every other one, so that the failure happens after part of the work is done.
        first = len(jobs) - 1
        for k, d in enumerate(outside[:ctx.n(3, 20)]):
            mp = [[rng.choice(usable), rng.choice([1, 2, 3])], [rng.choice(usable), 1], [d, (0, 2, 0.0, 1, -1)[k % 5]]]
            if k % 2:
                rng.shuffle(mp)
            j_ = {'op': 'estimate', 'lib': spec, 'mapping': mp, 'Ts': Ts, 'props': ('cp', 'h', 's'), 'se': True, 'kind': 'out-of-basis'}
            lo = max(0, first - 60)
            jobs.insert(rng.randint(lo, len(jobs)), j_)
    # libraries without a file path (built from loaded contents) next to each other in one process
    withuq = [s_ for s_ in uqs]
    import copy
    extra = []
    for j_ in [x for x in jobs if x['kind'] in ('unit', 'random')][::7][:ctx.n(20, 120)]:
        others = [s_ for s_ in withuq if s_ != j_['lib']]
        if others:
            c_ = copy.deepcopy(j_)
            c_['pathless_after'] = rng.choice(others)
            extra.append(c_)
    # the same library with its basis re-ordered in place (and the matrix with it) after a first standard error was asked for
    for j_ in [x for x in jobs if x['kind'] in ('unit', 'random', 'single-count')][3::5][:ctx.n(40, 200)]:
        c_ = copy.deepcopy(j_)
        c_['reordered_basis'] = True
        extra.append(c_)
    jobs += extra
    if len([s for s in uqs if s in libs]) < 3:
        ctx.broken.append('fewer than three shipped libraries carry uncertainty data')
    jobs.sort(key=lambda j: j['lib'])
    results = c01.run_by_lib(jobs)
    hist = {}
    rows = {}
    last_random = {}
    for job, r in zip(jobs, results):
        if '_child_failed' in r or 'job_exc' in r:
            ctx.broken.append('implementation child failed: %s' % str(r)[:300])
            continue
        kind = job['kind'].split(':')[0]
        hist[kind] = hist.get(kind, 0) + 1
        lib = job['lib']
        key = 'se:%s|%s' % (os.path.basename(os.path.dirname(lib)) or lib, ','.join('%s*%r' % (d, c) for d, c in job['mapping']))
        ctx.count(key, nontrivial=True)
        uq = uqs[lib]
        basis = uq['descriptors']
        if kind == 'out-of-basis':
            if r.get('exc') not in ('ValueError',):
                ctx.violate(key, 'a descriptor outside the uncertainty basis did not cause an error', job, 'ValueError', r.get('exc', 'estimate returned'))
            rows.setdefault(lib, []).append((1.0, job['mapping'], None))
            continue
        if r.get('exc') == 'AssertionError' and c01.disjoint_ranges(job, {g['name']: g.get('range') for g in byname_of[lib].values()}):
            continue        # no common valid range
        if 'exc' in r:
            ctx.violate('se-estimate-raises:' + r['exc'], 'Estimate over basis descriptors raised %s' % r['exc'], job, 'estimate', r)
            continue
        x = [0.0] * len(basis)
        for d, c in job['mapping']:
            x[basis.index(d)] = c
        M = uq['mat']
        qf = sum(x[i] * sum(M[i][j] * x[j] for j in range(len(x))) for i in range(len(x)))
        for p in ('cp', 'h', 's'):
            for ti, T in enumerate(job['Ts']):
                se, rm = r['se'][p][ti], r['rmse'][p][ti]
                if 'exc' in rm:
                    continue
                if 'exc' in se or se['v'] is None:
                    ctx.violate('se-raises:' + se.get('exc', 'non-number'), 'get_%s_SE raised %s or returned a non-number' % (p, se.get('exc')),
                                dict(job, T=T, prop=p), 'number', se)
                    continue
                want = abs(rm['v']) * math.sqrt(max(qf, 0.0))
                if se['v'] < 0 or se['type'] not in ('float', 'float64') or abs(se['v'] - want) > 1e-8 * (1 + want):
                    ctx.violate(key + '|' + p, 'standard error is not |RMSE(T)|*sqrt(x\'Mx) as a non-negative plain number',
                                dict(job, T=T, prop=p), want, se)
                if p == 'h' and ti == 0:
                    rows.setdefault(lib, []).append((rm['v'], job['mapping'], se['v']))
                    if kind == 'random':
                        last_random[lib] = (job, se['v'])
                    elif kind == 'scaled' and lib in last_random:
                        k = float(job['kind'].split(':')[1])
                        if abs(se['v'] - abs(k) * last_random[lib][1]) > 1e-8 * (1 + se['v']):
                            ctx.violate(key + '|scale', 'standard error does not scale with |k|', dict(job, k=k), abs(k) * last_random[lib][1], se)
                    elif kind == 'permuted' and lib in last_random:
                        pass
        ctx.sample({'lib': os.path.basename(os.path.dirname(lib)) or lib, 'mapping': job['mapping'][:4], 'kind': job['kind']})
    # correspondence, one file per library (basis and matrix shared)
    texts = []
    meta = []
    for lib, rs in rows.items():
        uq = uqs[lib]
        rs = rs[:ctx.n(60, 600)]
        body = ';\n'.join('(%s, %s, %s)' % (q(rm), g_list(['(%s, %s)' % (g_str(d), q(c)) for d, c in mp]),
                                            'None' if se is None else '(Some %s)' % q(se)) for rm, mp, se in rs)
        texts.append(HEADER + 'Definition basis : list str := %s.\nDefinition M : list (list Q) := %s.\n'
                     'Definition cases : list (Q * list (str * Q) * option Q) := [\n%s\n].\nEval vm_compute in mismatches (okse basis M) 0 cases.\n'
                     % (g_list([g_str(d) for d in uq['descriptors']]),
                        g_list([g_list([q(v) for v in row]) for row in uq['mat']]), body))
        meta.append((lib, rs))
    nbad = 0
    for k, (ok, out) in enumerate(vlib.run_cases_sharded('c20_' + ctx.tier, texts, timeout=1200)):
        val = vlib.coq_eval_value(out) if ok else None
        if val is None:
            ctx.broken.append('correspondence C20 shard %d did not evaluate: %s' % (k, out[-300:]))
            continue
        for i in vlib.parse_nat_list(val):
            nbad += 1
            ctx.violate('corr-se:%s:%d' % (meta[k][0], i), 'model se_square and implementation disagree',
                        {'lib': meta[k][0], 'mapping': meta[k][1][i][1]}, 'model', meta[k][1][i][2])
    ctx.coverage.update({
        'rule': 'unit vectors over each uncertainty basis (exhaustive in thorough, <=30 per library in quick), random mappings, a scaled copy '
                '(k in {2,-1,-2.5,0.5,0,3}) and a permuted copy of each, mappings with an out-of-basis descriptor; x 3 temperatures x {Cp,H,S}; '
                'shipped libraries with uncertainty data: %d, synthetic: %d' % (len([s for s in uqs if s in libs]), len([s for s in uqs if s not in libs])),
        'histogram': hist, 'correspondence_cases': sum(len(m[1]) for m in meta), 'correspondence_mismatches': nbad})


def replay(ctx, rec):
    c = rec['case']
    if not isinstance(c, dict) or c.get('op') != 'estimate':
        return True
    job = {k: v for k, v in c.items() if k not in ('T', 'prop', 'k')}
    r = c01.run_by_lib([job])[0]
    if 'exc' in r:
        return job.get('kind') == 'out-of-basis' and r['exc'] == 'ValueError'
    return all('exc' not in x and x['v'] is not None and x['v'] >= 0 for p in ('cp', 'h', 's') for x in r['se'][p])
