"""C01 - Estimate is the exact count-weighted sum of group contributions."""
import os
from fractions import Fraction
import vlib
import thermogen
from vlib import g_str, g_list, g_Q, g_bool

COQ_DEPS = ['Thermo/Corr.vo']

PROPS = ('cp', 'h', 's', 'g')
TOL = 1e-11


def libs_for(ctx):
    libs = list(thermogen.SHIPPED)
    syn = []
    for i in range(ctx.n(6, 60)):
        d = os.path.join(vlib.WORK, 'c01_syn_%d' % i)
        syn.append(thermogen.rnd_library(ctx.rng, d))
    return libs, syn


def temps_for(rng, ranges):
    los = [r[0] for r in ranges if r]
    his = [r[1] for r in ranges if r]
    if los and max(los) <= min(his):
        lo, hi = max(los), min(his)
        return sorted(set([lo, hi, round((lo + hi) / 2, 3), min(max(298.15, lo), hi),
                           round(rng.uniform(lo, hi), 2)]))
    return [298.15, 500.0]


def rnd_count(rng):
    k = rng.random()
    if k < 0.5:
        return rng.randint(1, 6)
    if k < 0.7:
        return rng.choice([0.5, 0.25, 1.5, 2.75, round(rng.uniform(0, 3), 3)])
    if k < 0.8:
        return 0
    if k < 0.9:
        return -rng.randint(1, 3)
    return rng.choice([0.0, -0.5, 1e-3, 7])


def make_jobs(ctx, lib, info, nrand):
    rng = ctx.rng
    jobs = []
    groups = info['groups']
    withdata = [g for g in groups if g['has']]
    nodata = [g['name'] for g in groups if not g['has']] + ['ZZ(none)', 'Q']
    byname = {g['name']: g for g in groups}
    # unit vectors: exhaustive
    for g in withdata:
        jobs.append({'op': 'estimate', 'lib': lib, 'mapping': [[g['name'], 1]],
                     'as_group': g.get('is_group', False) and rng.random() < 0.5,
                     'Ts': temps_for(rng, [g.get('range')])[:3], 'props': PROPS,
                     'predecomp': 'CC' if rng.random() < 0.7 else None, 'kind': 'unit'})
    for _ in range(nrand):
        k = rng.choice([1, 2, 2, 3, 4, 6, 10, min(25, len(withdata))])
        sel = rng.sample(withdata, min(k, len(withdata)))
        mp = [[g['name'], rnd_count(rng)] for g in sel]
        kind = 'random'
        if rng.random() < 0.2:
            for m in rng.sample(nodata, rng.randint(1, 2)):
                mp.insert(rng.randint(0, len(mp)), [m, rnd_count(rng)])
            kind = 'missing'
        rng.shuffle(mp)
        jobs.append({'op': 'estimate', 'lib': lib, 'mapping': mp,
                     'as_group': all(m[0] in byname and byname[m[0]].get('is_group') for m in mp) and rng.random() < 0.4,
                     'Ts': temps_for(rng, [byname[m[0]].get('range') for m in mp if m[0] in byname]),
                     'props': PROPS, 'predecomp': 'CC' if rng.random() < 0.7 else None,
                     'kind': kind})
        # a twin asked of the SAME library object right afterwards: the same descriptors, one count changed
        # (-1 <-> -2, 1 <-> 2, +-0.0 ...): every estimate is the weighted sum of ITS OWN mapping
        if kind == 'random' and rng.random() < 0.5:
            tw = [list(m) for m in mp]
            i = rng.randrange(len(tw))
            c = tw[i][1]
            tw[i][1] = {-1: -2, -2: -1, 1: 2, 2: 1, 0: 0.0}.get(c, -2 if rng.random() < 0.3 else c + 1)
            if rng.random() < 0.5:
                # ... and a first twin with -1 so that the pair (-1, -2) occurs
                t0 = [list(m) for m in tw]
                t0[i][1] = -1
                tw[i][1] = -2
                jobs.append(dict(jobs[-1], mapping=t0, kind='random'))
            jobs.append(dict(jobs[-1], mapping=tw, kind='random'))
    return jobs


def rel_close(a, b, scale):
    return abs(a - b) <= TOL * scale + 1e-300


def disjoint_ranges(job, ranges):
    rs = [ranges.get(n) for n, _ in job['mapping'] if ranges.get(n)]
    return bool(rs) and max(r[0] for r in rs) > min(r[1] for r in rs)


def oracle(ctx, job, res, has_thermo, ranges=None):
    ranges = ranges or {}
    """the property, checked directly on the implementation's own values"""
    mp = job['mapping']
    key = 'est:%s|%s' % (os.path.basename(os.path.dirname(job['lib'])) or job['lib'],
                         ','.join('%s*%r' % (n, c) for n, c in mp))
    expected_missing = [n for n, _ in mp if not has_thermo.get(n, False)]
    if 'exc' in res:
        if res['exc'] == 'GroupMissingDataError':
            if not expected_missing or res.get('groups') != expected_missing:
                ctx.violate(key, 'GroupMissingDataError does not name exactly the descriptors without data',
                            job, expected_missing, res)
        elif res['exc'] == 'AssertionError' and not expected_missing and disjoint_ranges(job, ranges):
            pass        # no common valid range: the estimate cannot be built (C06 model: est_range = Raise AssertErr)
        else:
            ctx.violate('estimate-raises:%s%s' % (res['exc'], '' if job.get('predecomp') else ':no-prior-decomposition'),
                        'Estimate raised %s for a mapping whose descriptors all have data' % res['exc']
                        if not expected_missing else 'Estimate raised %s instead of the missing-data error' % res['exc'],
                        job, 'estimate object' if not expected_missing else 'GroupMissingDataError', res)
        return
    if expected_missing:
        ctx.violate(key, 'Estimate returned although descriptors lack the property set (partial sum)',
                    job, expected_missing, {'returned': True})
        return
    for p in ('cp', 'h', 's'):
        for ti, T in enumerate(job['Ts']):
            e = res['vals'][p][ti]
            parts = [pt['vals'][p][ti] for pt in res['parts']]
            bad = [q for q in parts if 'exc' in q]
            if bad:
                if e.get('exc') != 'IncompleteDataError' or bad[0]['exc'] != 'IncompleteDataError':
                    ctx.violate(key + '|%s@%r' % (p, T), 'a constituent lacks data for %s but the estimate did not raise IncompleteDataError' % p,
                                dict(job, T=T, prop=p), 'IncompleteDataError', e)
                continue
            if 'exc' in e:
                ctx.violate(key + '|%s@%r' % (p, T), 'estimate raised although every constituent evaluates',
                            dict(job, T=T, prop=p), 'sum', e)
                continue
            if e['v'] is None:
                ctx.violate(key + '|%s@%r' % (p, T), 'estimate value is not a plain number', dict(job, T=T, prop=p), 'number', e)
                continue
            terms = [c * q['v'] for (_, c), q in zip(mp, parts)]
            s = sum(terms)
            scale = sum(abs(t) for t in terms)
            if not rel_close(e['v'], s, scale) or e['w'] != any(q['w'] for q in parts):
                ctx.violate(key + '|%s@%r' % (p, T), '%s of the estimate is not the count-weighted sum of its constituents' % p,
                            dict(job, T=T, prop=p), {'sum': s, 'warn': any(q['w'] for q in parts)}, e)
    for ti, T in enumerate(job['Ts']):
        g, h, s = (res['vals'][p][ti] for p in ('g', 'h', 's'))
        if 'exc' in h or 'exc' in s:
            if 'exc' not in g:
                ctx.violate(key + '|g@%r' % T, 'G/RT returned although H/RT or S/R is unavailable', dict(job, T=T), 'error', g)
        elif None in (h['v'], s['v']):
            pass        # non-number already reported above
        elif 'exc' in g or g['v'] is None or not rel_close(g['v'], h['v'] - s['v'], abs(h['v']) + abs(s['v'])):
            ctx.violate(key + '|g@%r' % T, 'G/RT != H/RT - S/R', dict(job, T=T), h['v'] - s['v'], g)


def q_of(x):
    return vlib.g_Qf(x)


def ev_lit(r):
    if 'exc' in r:
        cls = {'IncompleteDataError': 'IncompleteData', 'OutsideCorrelationError': 'OutsideCorrelation'}.get(r['exc'], 'InternalErr')
        return '(Raise %s)' % cls
    return '(Ok (%s, %s))' % (q_of(r['v']), g_bool(r['w']))


HEADER = '''From Coq Require Import List NArith Bool QArith.
From PG Require Import Common.Strs Thermo.Num Thermo.Estimate Thermo.Corr.
Import ListNotations.
Definition tol : Q := 1 # 100000000000.
Definition okcase (c : list (Q * ev Qops) * ev Qops) : bool :=
  ev_agree tol (sumabs (fst c)) (est_prop (K:=Qops) (fst c)) (snd c).
Definition okmiss (c : list (str * bool) * list str * res unit) : bool :=
  match estimate_check (fst (fst c)) (snd (fst c)), snd c with
  | Ok _, Ok _ => true | Raise a, Raise b => terr_same a b | _, _ => false end.
'''


def correspondence(ctx, evals, misses, tag='q'):
    ecases = []
    for terms, e in evals:
        ecases.append('(%s, %s)' % (g_list(['(%s, %s)' % (q_of(c), ev_lit(v)) for c, v in terms]), ev_lit(e)))
    mcases = []
    for lib, keys, res in misses:
        if res.get('exc') == 'GroupMissingDataError':
            r = '(Raise (MissingData %s))' % g_list([g_str(x) for x in res['groups']])
        elif 'exc' in res:
            r = '(Raise InternalErr)'
        else:
            r = '(Ok tt)'
        mcases.append('(%s, %s, %s)' % (g_list(['(%s, %s)' % (g_str(n), g_bool(h)) for n, h in lib]),
                                        g_list([g_str(k) for k in keys]), r))
    texts = []
    step = 250
    for s in range(0, len(ecases), step):
        texts.append(HEADER + 'Definition cases : list (list (Q * ev Qops) * ev Qops) := [\n%s\n].\nEval vm_compute in mismatches okcase 0 cases.\n'
                     % ';\n'.join(ecases[s:s + step]))
    nE = len(texts)
    for s in range(0, len(mcases), step):
        texts.append(HEADER + 'Definition cases : list (list (str * bool) * list str * res unit) := [\n%s\n].\nEval vm_compute in mismatches okmiss 0 cases.\n'
                     % ';\n'.join(mcases[s:s + step]))
    outs = vlib.run_cases_sharded('c01_' + tag, texts)
    badE, badM = [], []
    for k, (ok, out) in enumerate(outs):
        val = vlib.coq_eval_value(out) if ok else None
        if val is None:
            ctx.broken.append('correspondence C01 shard %d did not evaluate: %s' % (k, out[-300:]))
            continue
        idx = vlib.parse_nat_list(val)
        if k < nE:
            badE += [k * step + i for i in idx]
        else:
            badM += [(k - nE) * step + i for i in idx]
    return badE, badM


def run(ctx):
    ctx.assumptions += [
        'model Thermo/Estimate.v (est_sum, estimate_check) is hand-written; tie = correspondence over exact rationals run in this check',
        'constituent correlation values are taken from the implementation (they are the subject of C05)',
        'float arithmetic is compared with relative tolerance 1e-11 of the sum of term magnitudes',
        'theorems are over the reals: standard-library real-number axioms as listed by Print Assumptions']
    libs, syn = libs_for(ctx)
    specs = libs + [s['path'] for s in syn]
    infos = vlib.run_impl_sharded('thermo', [{'op': 'libinfo', 'lib': s} for s in specs], timeout=900)
    jobs = []
    has = {}
    rngs = {}
    for spec, info in zip(specs, infos):
        if 'job_exc' in info or '_child_failed' in info:
            ctx.violate('load:' + spec, 'library failed to load', spec, 'loads', info)
            continue
        has[spec] = {g['name']: g['has'] for g in info['groups']}
        rngs[spec] = {g['name']: g.get('range') for g in info['groups']}
        jobs += make_jobs(ctx, spec, info, ctx.n(25, 300) if spec in libs else ctx.n(15, 60))
    # some estimates on HAND-BUILT libraries (empty library + Update), made after another hand-built library received uncertainty data
    import copy
    hb = [copy.deepcopy(j) for j in jobs if j['kind'] == 'random' and ('BensonGA' in j['lib'] or j['lib'] not in libs)][:ctx.n(12, 80)]
    for j in hb:
        j['handbuilt'] = 'GRWSurface2018'
        j['kind'] = 'random'
    jobs += hb
    # keep the jobs of one library in one child (library load is the cost)
    jobs.sort(key=lambda j: j['lib'])
    results = run_by_lib(jobs)
    hist = {'unit': 0, 'random': 0, 'missing': 0}
    evals, misses = [], []
    for job, res in zip(jobs, results):
        hist[job['kind']] += 1
        if 'job_exc' in res or '_child_failed' in res:
            ctx.broken.append('implementation child failed: %s' % (res.get('msg') or res.get('_child_failed')))
            continue
        ctx.count((job['lib'], tuple(map(tuple, job['mapping']))), nontrivial=len(job['mapping']) > 1 or job['kind'] == 'unit')
        oracle(ctx, job, res, has[job['lib']], rngs[job['lib']])
        ia = res.get('int_array')
        if ia and 'vals' in res:
            for p_ in job['props']:
                got_ = ia['vals'].get(p_)
                sc_ = [res['vals'][p_][job['Ts'].index(float(T_))] if float(T_) in job['Ts'] else None for T_ in ia['T']]
                if isinstance(got_, list) and all(x_ is not None and x_.get('v') is not None for x_ in sc_):
                    if len(got_) != len(sc_) or any(abs(a_ - b_['v']) > 1e-12 * (1 + abs(b_['v'])) for a_, b_ in zip(got_, sc_)):
                        ctx.violate('int-array:%s|%s' % (p_, job['lib'][-30:]), '%s of the estimate on an integer-typed temperature array differs from the scalar calls' % p_,
                                    dict(job, prop=p_, Tarray=ia['T']), [b_['v'] for b_ in sc_], got_)
                        break
        va = res.get('vals_after_elements')
        if isinstance(va, dict) and 'vals' in res and 'exc' not in va:
            for p_ in job['props']:
                for T_, a_, b_ in zip(job['Ts'], res['vals'][p_], va[p_]):
                    same_ = (a_.get('exc') == b_.get('exc')) if ('exc' in a_ or 'exc' in b_) else \
                        (a_.get('v') == b_.get('v') or (a_.get('v') is not None and b_.get('v') is not None and abs(a_['v'] - b_['v']) <= 1e-12 * (1 + abs(a_['v']))))
                    if not same_:
                        ctx.violate('asked-before:%s|%s' % (p_, job['lib'][-30:]), 'an estimate asked first for values relative to the elements then gives another %s' % p_,
                                    dict(job, T=T_, prop=p_), a_, b_)
                        break
        if job['kind'] != 'unit' or ctx.rng.random() < 0.1:
            libview = [(n, has[job['lib']].get(n, False)) for n, _ in job['mapping']]
            if len(misses) < ctx.n(300, 3000) and ('exc' not in res or res['exc'] == 'GroupMissingDataError'):
                misses.append((libview, [n for n, _ in job['mapping']], res))
            if 'vals' in res and len(evals) < ctx.n(600, 8000):
                for p in ('cp', 'h', 's'):
                    ti = ctx.rng.randrange(len(job['Ts']))
                    e = res['vals'][p][ti]
                    parts = [pt['vals'][p][ti] for pt in res['parts']]
                    if all(q.get('v') is not None or 'exc' in q for q in parts + [e]):
                        evals.append(([(c, q) for (_, c), q in zip(job['mapping'], parts)], e))
        if job['kind'] != 'unit':
            ctx.sample({'lib': os.path.basename(os.path.dirname(job['lib'])) or job['lib'],
                        'mapping': job['mapping'], 'Ts': job['Ts'],
                        'outcome': res.get('exc', 'estimate')})
    badE, badM = correspondence(ctx, evals, misses, ctx.tier)
    for i in badE:
        ctx.violate('corr-sum:%d' % i, 'model est_prop and implementation disagree on an evaluation',
                    {'terms': evals[i][0], 'impl': evals[i][1]}, 'model', evals[i][1])
    for i in badM:
        ctx.violate('corr-missing:%s' % (misses[i][1],), 'model estimate_check and implementation disagree',
                    {'lib': misses[i][0], 'keys': misses[i][1]}, 'model', misses[i][2])
    ctx.coverage.update({
        'rule': 'mappings: every unit vector of every group with data of the 9 shipped and %d synthetic libraries; random sparse/dense '
                'mappings with integer, fractional, zero, negative counts; mappings with descriptors lacking data; keys as str and as Group; '
                'x 3-5 temperatures in the common range x {Cp/R,H/RT,S/R,G/RT}. non-trivial = unit vector or >1 descriptor; distinct by (library, mapping)' % len(syn),
        'histogram': dict(hist, libraries=len(specs)),
        'correspondence_cases': len(evals) + len(misses),
        'correspondence_mismatches': len(badE) + len(badM)})


def run_by_lib(jobs):
    """group jobs by library so each child loads few libraries"""
    from collections import OrderedDict
    groups = OrderedDict()
    for i, j in enumerate(jobs):
        groups.setdefault(j['lib'], []).append(i)
    out = [None] * len(jobs)
    from concurrent.futures import ThreadPoolExecutor

    def one(idx):
        res, diag = vlib.run_impl('thermo', {'cases': [jobs[i] for i in idx]}, timeout=1200)
        if res is None:
            return idx, [{'_child_failed': diag}] * len(idx)
        return idx, res['results']
    chunks = []
    for lib, idx in groups.items():
        n = max(1, len(idx) // 150)
        for k in range(n):
            chunks.append(idx[k::n])
    with ThreadPoolExecutor(vlib.NCPU) as ex:
        for idx, rs in ex.map(one, chunks):
            for i, r in zip(idx, rs):
                out[i] = r
    return out


def replay(ctx, rec):
    case = rec['case']
    if not isinstance(case, dict) or case.get('op') != 'estimate':
        return True
    res, diag = vlib.run_impl('thermo', {'cases': [case, {'op': 'libinfo', 'lib': case['lib']}]})
    if res is None:
        return False
    r, info = res['results']
    has = {g['name']: g['has'] for g in info['groups']}
    n0 = len(ctx.violations)
    oracle(ctx, case, r, has, {g['name']: g.get('range') for g in info['groups']})
    return len(ctx.violations) == n0
