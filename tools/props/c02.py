"""C02 - descriptors equal the scheme file's declared decomposition."""
import vlib
import molgen
import ringcorr
import gen
from vlib import g_str, g_list

GEN = ['grammar', 'elements', 'schemes']
COQ_DEPS = ['Graph/SchemeLoad.vo', 'Gen/Schemes.vo']

HEADER = '''From Coq Require Import List NArith ZArith QArith Qabs Arith Bool.
From PG Require Import Common.Strs Ring.Peg Ring.PegCorr Ring.Reader Graph.Mol Graph.Match Graph.Scheme Graph.SchemeLoad Gen.Schemes.
Import ListNotations.
Definition deq (a b : list (str * Q)) : bool :=
  Nat.eqb (length a) (length b)
  && forallb (fun kv => existsb (fun kv' => str_eqb (fst kv) (fst kv') && Qle_bool (Qabs (snd kv - snd kv')) (1 # 1000000000)) b) a.
Inductive expo := EDict (d : list (str * Q)) | EPattern | EOther.
Definition ok1 (s : scheme) (c : mol * list (list nat) * expo) : bool :=
  let '(m, sssr, e) := c in
  match get_descriptors s sssr m, e with
  | SOk d, EDict d' => deq d d'
  | SRaise PatternMatch, EPattern => true
  | _, _ => false end.
Definition run (r : raw_scheme) (cs : list (mol * list (list nat) * expo)) : list nat :=
  match load_scheme r with
  | None => [9999%nat]
  | Some s => mismatches_ (ok1 s) 0 cs
  end
with mismatches_ := fix mm (f : mol * list (list nat) * expo -> bool) (i : nat) (l : list (mol * list (list nat) * expo)) : list nat :=
  match l with [] => [] | x :: r => if f x then mm f (S i) r else i :: mm f (S i) r end.
'''
HEADER = HEADER.replace('''Definition run (r : raw_scheme) (cs : list (mol * list (list nat) * expo)) : list nat :=
  match load_scheme r with
  | None => [9999%nat]
  | Some s => mismatches_ (ok1 s) 0 cs
  end
with mismatches_ := fix mm (f : mol * list (list nat) * expo -> bool) (i : nat) (l : list (mol * list (list nat) * expo)) : list nat :=
  match l with [] => [] | x :: r => if f x then mm f (S i) r else i :: mm f (S i) r end.
''', '''Fixpoint mm (f : mol * list (list nat) * expo -> bool) (i : nat) (l : list (mol * list (list nat) * expo)) : list nat :=
  match l with [] => [] | x :: r => if f x then mm f (S i) r else i :: mm f (S i) r end.
Definition run (r : raw_scheme) (cs : list (mol * list (list nat) * expo)) : list nat :=
  match load_scheme r with
  | None => [9999%nat]
  | Some s => mm (ok1 s) 0 cs
  end.
''')


SYN = [
    {'name': 'syn_overlap_late',
     'patterns': [('C', 'C', 'fragment a{C? labeled c1}'), ('H', 'H', 'fragment a{H? labeled h1}'), ('O', 'O', 'fragment a{O? labeled o1}'),
                  ('Cd', 'Cd', 'fragment a{C? labeled c1 C? labeled c2 double bond to c1}')],
     'descr': [], 'remaps': {}, 'mols': ['CC', 'CCO', 'C=C', 'CC=C', 'C', 'O', 'C=CC=C', 'CCC', 'OC=C', 'N']},
    {'name': 'syn_overlap_early',
     'patterns': [('Cd', 'Cd', 'fragment a{C? labeled c1 C? labeled c2 double bond to c1}'), ('C', 'C', 'fragment a{C? labeled c1}'),
                  ('H', 'none', 'fragment a{H? labeled h1}'), ('O', 'O', 'fragment a{O? labeled o1}')],
     'descr': [('pairs', 'fragment a{C? labeled c1 C? labeled c2 single bond to c1}')], 'remaps': {}, 'mols': ['CC', 'C=C', 'CCC', 'CCO', 'C1CC1']},
    # two patterns that carry the SAME centre name (and differ in the peripheral name) meet on one atom: still "several" (batch 13)
    {'name': 'syn_same_centre',
     'patterns': [('C', 'C', 'fragment a{C labeled c1}'),
                  ('C', 'Cx', 'fragment a{C labeled c1 C? labeled c2 single bond to c1 C? labeled c3 single bond to c1}'),
                  ('H', 'H', 'fragment a{H labeled h1}'), ('O', 'O', 'fragment a{O labeled o1}')],
     'descr': [], 'remaps': {}, 'mols': ['C', 'CC', 'CCC', 'CC(C)C', 'CCO', 'CCCC', 'C1CC1', 'COC']},
    {'name': 'syn_remaps',
     'patterns': [('C', 'C', 'fragment a{C labeled c1}'), ('H', 'none', 'fragment a{H labeled h1}'), ('O', 'O', 'fragment a{O labeled o1}'),
                  ('Crad', 'C', 'fragment a{C. labeled c1}')],
     'descr': [('CCbond', 'fragment a{C labeled c1 C labeled c2 single bond to c1}'), ('C(C)', 'fragment a{O labeled o1}'),
               # a second declaration under an existing name: the counts of the two add up
               ('CCbond', 'fragment a{C labeled c1 O labeled o1 single bond to c1}'),
               ('tri', 'fragment a{C labeled c1 C labeled c2 single bond to c1 C labeled c3 single bond to c2}')],
     'remaps': {'C(C)': [[0.5, 'X'], [2, 'Y']], 'CCbond': [[1, 'Y']], 'O(C)': [[3, 'C(C)2']], 'tri': [[0.25, 'C(C)2'], [1, 'tri2']]},
     'mols': ['CC', 'CCC', 'CCCC', 'CCO', 'C[CH2]', 'CC(C)C', 'C1CC1', 'COC', 'C', 'CO', 'C=C']},
]


def write_syn(sch, root):
    import os
    os.makedirs(root, exist_ok=True)
    L = ['patterns:']
    for c, pe, t in sch['patterns']:
        L.append("-   center_name: '%s'\n    periph_name: '%s'\n    connectivity: '%s'" % (c, pe, t))
    if sch['descr']:
        L.append('other_descriptors:')
        for n, t in sch['descr']:
            L.append("-   name: '%s'\n    connectivity: '%s'" % (n, t))
    if sch['remaps']:
        L.append('remaps:')
        for k, v in sch['remaps'].items():
            L.append("    '%s': %s" % (k, '[' + ','.join("[%r,'%s']" % (c, t) for c, t in v) + ']'))
    path = os.path.join(root, 'scheme.yaml')
    with open(path, 'w') as f:
        f.write('\n'.join(L) + '\n')
    return path


def syn_raw_lit(sch):
    from fractions import Fraction
    pats = g_list(['(%s, %s, %s)' % (g_str(c), g_str(pe), g_str(t)) for c, pe, t in sch['patterns']])
    descr = g_list(['(%s, %s)' % (g_str(n), g_str(t)) for n, t in sch['descr']])
    rem = g_list(['(%s, %s)' % (g_str(k), g_list(['((%d # %d)%%Q, %s)' % (Fraction(repr(c)).numerator, Fraction(repr(c)).denominator, g_str(t)) for c, t in v]))
                  for k, v in sch['remaps'].items()])
    return '((%s : list (list N * list N * list N)), (%s : list (list N * list N)), (%s : list (list N * list (Q * list N))))' % (pats, descr, rem)


def expo_lit(r):
    if 'd' in r:
        return '(EDict %s)' % g_list(['(%s, %s)' % (g_str(k), vlib.g_Qf(v)) for k, v in r['d']])
    if r.get('exc') == 'PatternMatchError':
        return 'EPattern'
    return 'EOther'


# tri- and tetra-substituted alkenes written with explicit stereo (both isomers), for the schemes with cis corrections
STEREO = ['C/C=C(/C)CC', 'C/C=C(\\C)CC', 'C/C(CC)=C(\\C)CCC', 'C/C(CC)=C(/C)CCC', 'CC/C=C(/C)C(C)C', 'C/C=C/C', 'C/C=C\\C',
          'C/C=C(/CC)CCC', 'C/C=C(\\CC)CCC', 'CC/C(C)=C(/C)CC', 'C/C=C/C=C\\C', 'F/C=C(/C)CC',
          # two different declarations of ONE correction name (Cis, AlkaneGauche ...) matching in the same molecule
          'C/C=C\\CCC=C(C)C', 'CC(C)C(C)CC(C)(C)CC', 'C/C=C\\CC(C)=C(C)C', 'CC(C)C(C)C(C)(C)C(C)C']


# radicals next to atoms that carry neighbour-count constraints inside correction descriptors (ortho, cis, gauche)
RADICALS = ['[CH2]c1ccccc1C', 'C[CH]c1ccccc1C', '[CH2]C(C)=CC', '[CH2]C(C)=C(C)C', 'CC(=[CH])C(C)(C)C', '[CH2]C(C)C(C)C', 'C[C](C)C(C)C',
            '[CH2]/C=C\\C', 'C[CH]C=CC', '[CH2]c1ccccc1', 'Cc1ccccc1[CH]C', '[CH2]C(C)(C)CC(C)(C)C', 'CC(C)[C](C)C', '[CH2]C=C(C)C']


# spiro atoms (two rings through four ring bonds) and homonuclear species whose centre pattern matches from either end
SPIRO = ['C1CC12CC2', 'CC1CC12CC2', 'C1CC12CCC2', 'C1CCC12CCC2', 'C1CC12CCCC2']
DIATOMIC = ['[H][H]', 'O=O', '[O][O]', '[C]#[C]', 'C#[C]', '[C]=[C]', '[HH]', 'OO', 'N#N']


def decompose_jobs(ctx, n_per_lib, graph=True, as_mol=False):
    jobs = []
    libs = list(gen.SHIPPED)
    for li, lib in enumerate(libs):
        from props import c03, c04
        extra = (STEREO + RADICALS + SPIRO) if lib in ('BensonGA', 'PPY') else []
        extra = extra + DIATOMIC
        pool = list(dict.fromkeys(c03.EXTRA.get(lib, [])[:10] + c04.STRESS.get(lib, [])[:10] + extra
                                  + molgen.pool_for_lib(ctx.rng, lib, n_per_lib, with_bad=0.12)))
        step = 8
        for k, s in enumerate(range(0, len(pool), step)):
            # every other job first asks ANOTHER scheme object for the same strings in the same process
            jobs.append({'lib': lib, 'smiles': pool[s:s + step], 'graph': graph, 'as_mol': as_mol, 'timeout': 300,
                         'prime': libs[(li + 1 + k) % len(libs)] if k % 2 == 0 else None, 'mol_twice': k % 3 == 0})
    return jobs


def run(ctx):
    ctx.assumptions += [
        'models Graph/Scheme.v (aromatisation, centre assignment, group naming via the C19 model, descriptors, remaps) on top of the C08 matcher and '
        'the C09 reader; the nine scheme files are regenerated from /repo on every run and READ BY THE COQ PARSER (independent interpreter of the scheme)',
        'the prepared graph (SMILES -> sanitised, H added, kekulised, unspecified bonds -> ZERO, ring lists) is computed by the harness with public '
        'RDKit calls; RDKit itself (SMILES parsing, kekulisation, ring perception) is an external',
        'dictionaries compared by key, counts at 1e-9 (fractional remap coefficients accumulate in floating point)']
    jobs = decompose_jobs(ctx, ctx.n(32, 500))
    import os
    syn_of = {}
    for sch in SYN:
        path = write_syn(sch, os.path.join(vlib.WORK, 'c02_' + sch['name']))
        syn_of[path] = sch
        jobs.append({'lib': path, 'smiles': sch['mols'], 'graph': True, 'as_mol': False, 'timeout': 300})
    # the synthetic scheme files written one after the other to ONE path and loaded from there
    rl_path = os.path.join(vlib.WORK, 'c02_reload', 'scheme.yaml')
    os.makedirs(os.path.dirname(rl_path), exist_ok=True)
    rl_mols = ['CC', 'CCC', 'CCO', 'C', 'CO', 'C=C', 'COC']
    rl = {'op': 'reload', 'path': rl_path, 'texts': [open(p_).read() for p_ in syn_of] * 2, 'smiles': rl_mols, 'timeout': 300}
    rl_ref = [{'lib': p_, 'smiles': rl_mols, 'graph': False, 'as_mol': False, 'timeout': 300} for p_ in syn_of]
    rr, _ = vlib.run_impl('scheme', {'cases': [rl]}, timeout=600)
    rf = vlib.run_impl_sharded('scheme', rl_ref, timeout=600)
    if rr and 'reload' in rr['results'][0] and all('results' in x for x in rf):
        want = [[y['impl'] for y in x['results']] for x in rf] * 2
        for k, (got, w) in enumerate(zip(rr['results'][0]['reload'], want)):
            ctx.count(('reload', k))
            if got != w:
                ctx.violate('reload:%d' % k, 'a scheme file loaded from a path where another scheme file was loaded before does not decompose like the file says',
                            {'op': 'reload', 'step': k, 'smiles': rl_mols}, w, got)
    else:
        ctx.broken.append('reload job failed: %s' % str(rr)[:200])
    res = vlib.run_impl_sharded('scheme', jobs, timeout=3000)
    rows = {}
    hist = {'decomposed': 0, 'pattern_error': 0, 'other_error': 0}
    fired = {}
    for j, r in zip(jobs, res):
        if 'results' not in r:
            ctx.broken.append('implementation child failed: %s' % str(r)[:300])
            continue
        for smi, x in zip(j['smiles'], r['results']):
            if x.get('bad_smiles') or not x.get('graph'):
                continue
            im = x['impl']
            six = [set(r_) for r_ in x['graph']['sssr'] if len(r_) == 6]
            fused = any(len(a & b) >= 2 for i_, a in enumerate(six) for b in six[i_ + 1:])       # spelling dependent: C03's known finding
            for k_, mh in enumerate([] if fused else x.get('molH', [])):
                if mh != im:
                    ctx.violate('mol-object:%s|%s|%d' % (j['lib'], smi, k_), 'a molecule object with explicit hydrogens handed in %s decomposes differently from its SMILES'
                                % ('the first time' if k_ == 0 else 'a second time'), {'lib': j['lib'], 'smiles': smi}, im, mh)
                    break
            ctx.count((j['lib'], x['graph']['canon']), nontrivial='d' in im and len(im['d']) >= 2)
            if 'd' in im:
                hist['decomposed'] += 1
                for k, _ in im['d']:
                    fired.setdefault(j['lib'], set()).add(k)
            elif im.get('exc') == 'PatternMatchError':
                hist['pattern_error'] += 1
            else:
                hist['other_error'] += 1
                ctx.violate('decomp-exc:%s' % im.get('exc'), 'GetDescriptors escaped with %s instead of a decomposition or PatternMatchError' % im.get('exc'),
                            {'lib': j['lib'], 'smiles': smi}, 'dict or PatternMatchError', im)
                continue
            if len(x['graph']['atoms']) <= 40:
                rows.setdefault(j['lib'], []).append((smi, x['graph'], im))
    for lib in list(rows)[:2]:
        smi, _, im = rows[lib][0]
        ctx.sample({'lib': lib, 'smiles': smi, 'descriptors': im.get('d', im)})
    shards, meta = [], []
    step = 25
    for lib, rs in rows.items():
        for s in range(0, len(rs), step):
            R = rs[s:s + step]
            body = ';\n'.join('(%s, %s, %s)' % (ringcorr.graph_lit(g), g_list([g_list(['%d%%nat' % a for a in ring]) for ring in g['sssr']]), expo_lit(im))
                              for _, g, im in R)
            if lib in syn_of:
                shards.append(HEADER + 'Definition raw_syn : raw_scheme := %s.\nDefinition cases : list (mol * list (list nat) * expo) := [\n%s\n].\n'
                              'Eval vm_compute in run raw_syn cases.\n' % (syn_raw_lit(syn_of[lib]), body))
            else:
                shards.append(HEADER + 'Definition cases : list (mol * list (list nat) * expo) := [\n%s\n].\nEval vm_compute in run raw_%s cases.\n' % (body, lib))
            meta.append((lib, R))
    nbad = 0
    for k, idx in ringcorr.run_shards(ctx, 'c02_' + ctx.tier, shards, timeout=3000):
        for i in idx:
            nbad += 1
            lib, R = meta[k]
            if i == 9999:
                ctx.violate('scheme-unreadable:' + lib, 'the Coq reader cannot read a pattern of scheme %s' % lib, {'lib': lib}, 'readable', None)
                continue
            smi, g, im = R[i]
            ctx.violate('corr:%s|%s' % (lib, g['canon']), 'the independent interpreter of the scheme file and GetDescriptors disagree on a molecule',
                        {'lib': lib, 'smiles': smi}, 'model decomposition (Graph/Scheme.v)', im)
    ctx.coverage.update({
        'rule': 'molecules composed from templates per scheme vocabulary (gas: chains, branches, rings 3-7, alkenes incl. cis/trans, alkynes, carbonyls, ethers, '
                'acids, aromatics incl. fused, radicals, N; surface: Pt/Ru adsorbates with 1-3 surface bonds) plus out-of-vocabulary molecules, for each '
                'of the nine shipped schemes; plus four synthetic schemes (centre patterns overlapping late / early / under one centre name, unmatched atoms, chained and fractional remaps, a descriptor named like a group). distinct by (scheme, canonical SMILES); non-trivial = decomposed into >=2 descriptors',
        'histogram': dict(hist, descriptors_seen={k: len(v) for k, v in fired.items()}),
        'correspondence_cases': sum(len(v) for v in rows.values()), 'correspondence_mismatches': nbad})


def replay(ctx, rec):
    c = rec['case']
    if not isinstance(c, dict) or 'smiles' not in c:
        return True
    r = vlib.run_impl_sharded('scheme', [{'lib': c['lib'], 'smiles': [c['smiles']], 'graph': True}])[0]
    x = r['results'][0]
    im = x['impl']
    if 'd' not in im and im.get('exc') != 'PatternMatchError':
        return False
    g = x['graph']
    body = '(%s, %s, %s)' % (ringcorr.graph_lit(g), g_list([g_list(['%d%%nat' % a for a in ring]) for ring in g['sssr']]), expo_lit(im))
    ok, out = vlib.run_cases_file('c02_replay', HEADER + 'Definition cases : list (mol * list (list nat) * expo) := [%s].\nEval vm_compute in run raw_%s cases.\n' % (body, c['lib']))
    val = vlib.coq_eval_value(out) if ok else None
    return val is not None and not vlib.parse_nat_list(val)
