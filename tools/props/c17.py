"""C17 - a generated network is the duplicate-free closure of its seeds."""
import vlib
from vlib import g_list

COQ_DEPS = ['Graph/Network.vo']
SEEDS = ['CC', 'C', 'CCC', 'C=C', 'CO', 'CCO', 'C#C', 'CC=C', 'O', 'OO', 'C1CC1', 'CC(C)C', 'C=O', '[CH3]', 'CN']
SMARTS = ['[C:1][H:2]>>[C:1].[H:2]', '[C:1][C:2]>>[C:1].[C:2]', '[O:1][H:2]>>[O:1].[H:2]', '[C:1][O:2]>>[C:1].[O:2]',
          '[C:1]=[C:2]>>[C:1][C:2]', '[N:1][H:2]>>[N:1].[H:2]', '[C:1][C:2]>>[C:1]=[C:2]']
RING = ['rule ch{ reactant r{ C? labeled c1 H labeled h1 single bond to c1} break bond (c1,h1) increase number of radical (c1) increase number of radical (h1)}',
        'rule cc{ reactant r{ C? labeled c1 C? labeled c2 single bond to c1} break bond (c1,c2) increase number of radical (c1) increase number of radical (c2)}',
        'rule oh{ reactant r{ O? labeled o1 H labeled h1 single bond to o1} break bond (o1,h1) increase number of radical (o1) increase number of radical (h1)}',
        'rule co{ reactant r{ C? labeled c1 O? labeled o1 single bond to c1} break bond (c1,o1) increase number of radical (c1) increase number of radical (o1)}']

HEADER = '''From Coq Require Import List Arith Bool.
From PG Require Import Graph.Network.
Import ListNotations.
Fixpoint ins (x : nat) (l : list nat) : list nat := match l with [] => [x] | y :: r => if Nat.leb x y then x :: l else y :: ins x r end.
Definition srt (l : list nat) : list nat := fold_right ins [] l.
Fixpoint eqb (a b : list nat) : bool := match a, b with [], [] => true | x :: a', y :: b' => Nat.eqb x y && eqb a' b' | _, _ => false end.
Definition ok (c : list (list nat) * list nat * list nat) : bool :=
  let '(tab, seeds, impl) := c in
  match generate (fun i => nth i tab []) (S (S (length tab))) seeds with
  | Some res => eqb (srt res) (srt impl)
  | None => false end.
Fixpoint mm (i : nat) (l : list (list (list nat) * list nat * list nat)) : list nat :=
  match l with [] => [] | c :: r => if ok c then mm (S i) r else i :: mm (S i) r end.
'''


def run(ctx):
    ctx.assumptions += [
        'model Graph/Network.v: the work list, abstract in the species; theorems hold for every expand function; tie = the Coq work list run on the '
        'expand table computed by an independent breadth-first closure (harness, with the implementation\'s own RunReactants) must reproduce '
        'GenerateRxnNet\'s species list (as a multiset of species ids)',
        'species identity = canonical SMILES of the hydrogen-explicit graph; the implementation\'s duplicate test (equal atom count + sub-structure '
        'match) is assumed to coincide with it on the generated pools (it does not distinguish charges - none are generated)',
        'closures capped at 400 species (larger ones skipped)']
    rng = ctx.rng
    jobs = []
    for _ in range(ctx.n(40, 700)):
        seeds = rng.sample(SEEDS, rng.choice([1, 1, 2]))
        pool = SMARTS if rng.random() < 0.5 else RING
        rules = rng.sample(pool, rng.randint(1, min(3, len(pool))))
        jobs.append({'seeds': seeds, 'rules': rules, 'timeout': 300})
    jobs.append({'seeds': ['CC'], 'rules': SMARTS[:2], 'timeout': 300})
    jobs.append({'seeds': ['CCC'], 'rules': [SMARTS[1]], 'timeout': 300})
    # the same species produced by two different rules from one parent; a seed that is regenerated later (reachable from the
    # other seed, or through a reversible pair of rules); one rule given twice (SMARTS and RING text)
    jobs.append({'seeds': ['CO'], 'rules': [SMARTS[0], SMARTS[2]], 'timeout': 300})
    jobs.append({'seeds': ['COCC'], 'rules': [SMARTS[1], SMARTS[3]], 'timeout': 300})
    jobs.append({'seeds': ['CO'], 'rules': [RING[0], RING[2]], 'timeout': 300})
    jobs.append({'seeds': ['[CH3]', 'CC'], 'rules': [SMARTS[1]], 'timeout': 300})
    jobs.append({'seeds': ['C=C', 'CC'], 'rules': [SMARTS[0], SMARTS[6]], 'timeout': 300})
    jobs.append({'seeds': ['C=C'], 'rules': [SMARTS[4], SMARTS[6]], 'timeout': 300})
    jobs.append({'seeds': ['C'], 'rules': [SMARTS[0], RING[0]], 'timeout': 300})
    # seeds that share a heavy-atom skeleton (closed shell / radical, chain / ring), in both orders, with rules that do not regenerate them:
    # every seed is a species of the network
    for seeds, rules in ((['CC', '[CH2]C'], [RING[1]]), (['[CH2]C', 'CC'], [RING[1]]), (['C', '[CH3]'], [RING[1]]), (['CO', 'C[O]'], [RING[1]]),
                         (['CCC', 'C1CC1'], [RING[0]]), (['C1CC1', 'CCC'], [RING[0]]), (['CC', 'C=C', '[CH2][CH2]'], [RING[3]]),
                         (['CCO', 'CC[O]', '[CH2]CO'], [RING[2]])):
        jobs.append({'seeds': seeds, 'rules': rules, 'timeout': 300})
    # two seeds of different element sets in both orders with a rule that needs the element only ONE of them has; two different
    # RING rules that carry the same name
    for seeds, rules in ((['CO', 'C'], [SMARTS[2]]), (['C', 'CO'], [SMARTS[2]]), (['CCO', 'CC'], [SMARTS[3], SMARTS[0]]), (['CN', 'CC'], [SMARTS[5]]),
                         (['CN', 'C'], [SMARTS[5], SMARTS[1]]), (['OO', 'C'], [SMARTS[2]]), (['CO', 'CC'], [RING[2]]), (['CC', 'CO'], [RING[3], RING[1]])):
        jobs.append({'seeds': seeds, 'rules': rules, 'timeout': 300})
    same_name = [RING[0].replace('rule ch{', 'rule scission{'), RING[1].replace('rule cc{', 'rule scission{'), RING[3].replace('rule co{', 'rule scission{')]
    jobs.append({'seeds': ['CC'], 'rules': same_name[:2], 'timeout': 300})
    jobs.append({'seeds': ['CC'], 'rules': same_name[1::-1], 'timeout': 300})
    jobs.append({'seeds': ['CCO'], 'rules': same_name, 'timeout': 300})
    # seeds with an atom above its default valence that the rule does not touch (the valence filter looks at every atom of a product)
    for seeds, rules in ((['CS(C)=O'], [SMARTS[0]]), (['C[N+](=O)[O-]'], [SMARTS[0]]), (['CC[NH3+]'], [SMARTS[0], SMARTS[1]]), (['CS(C)=O'], [RING[0]])):
        jobs.append({'seeds': seeds, 'rules': rules, 'timeout': 300})
    # a symmetric reactant pattern with an asymmetric edit: both mirror-image embeddings count
    ASYM = ['rule b3{ reactant r{ C? labeled x1 C? labeled x2 single bond to x1 C? labeled x3 single bond to x2} break bond (x1,x2) '
            'increase number of radical (x1) increase number of radical (x2)}',
            'rule b3o{ reactant r{ C? labeled x1 O? labeled x2 single bond to x1 C? labeled x3 single bond to x2} break bond (x1,x2) '
            'increase number of radical (x1) increase number of radical (x2)}']
    for seeds, rules in ((['CCCO'], [ASYM[0]]), (['CCOC'], [ASYM[1]]), (['CC(C)CO'], [ASYM[0]]), (['CCC'], [ASYM[0]]), (['CCCC=O'], [ASYM[0]])):
        jobs.append({'seeds': seeds, 'rules': rules, 'timeout': 300})
    # a scission rule written hydrogen-first (every reaction then leads with the same first product), and rule sets in which one rule
    # creates the pattern another one needs (a rule that finds nothing in a parent may still apply to its descendants)
    HF = ['[H:1][C:2]>>[H:1].[C:2]', '[H:1][O:2]>>[H:1].[O:2]']
    BO = ['[C:1][C:2]>>[C:1]=[C:2]', '[C:1]=[C:2]>>[C:1]#[C:2]']
    for seeds, rules in ((['CCC'], [HF[0]]), (['CCO'], [HF[0], HF[1]]), (['CC(C)C'], [HF[0]]), (['CC'], [SMARTS[0], BO[0], BO[1]]),
                         (['CC'], [BO[1], BO[0], SMARTS[0]]), (['CCC'], [SMARTS[0], BO[0], BO[1]]), (['CC'], [RING[0], BO[0], BO[1]])):
        jobs.append({'seeds': seeds, 'rules': rules, 'timeout': 300})
    # a network generated after another one in the same process, the same species written with another atom order
    for warm, seeds, rules in ((['CCO'], ['OCC'], [RING[1]]), (['CO'], ['OC'], [RING[0]]), (['CC=C'], ['C=CC'], [RING[0], RING[1]]),
                               (['CCO'], ['C(O)C'], [RING[3], RING[2]]), (['OCC'], ['CCO'], [SMARTS[1], SMARTS[3]]), (['CCC'], ['CC'], [RING[0]])):
        jobs.append({'seeds': seeds, 'rules': rules, 'warm': [warm], 'timeout': 300})
    for _ in range(ctx.n(6, 60)):
        a = rng.choice(['CCO', 'CCN', 'CC=C', 'COC', 'CC(C)O', 'C=CO'])
        b = {'CCO': 'OCC', 'CCN': 'NCC', 'CC=C': 'C=CC', 'COC': 'C(OC)', 'CC(C)O': 'OC(C)C', 'C=CO': 'OC=C'}[a]
        pool = RING if rng.random() < 0.7 else SMARTS[:4]
        jobs.append({'seeds': [b], 'rules': rng.sample(pool, rng.randint(1, 2)), 'warm': [[a]], 'timeout': 300})
    # (acyclic seeds only: a reaction SMARTS with two product templates does not open a ring bond the way the RING edit does -
    #  RDKit puts the still-connected molecule into each product template - so the two forms are not twins on rings)
    # twins: the same rule given as reaction SMARTS and as RING text (incl. scission written as `decrease bond order` on a single
    # bond) must generate the same network - an oracle for the closure that does not go through the RING edit primitives
    RING_DEC = ['rule dcc{ reactant r{ C? labeled c1 C? labeled c2 single bond to c1} decrease bond order (c1,c2) '
                'increase number of radical (c1) increase number of radical (c2)}',
                'rule ddb{ reactant r{ C? labeled c1 C? labeled c2 double bond to c1} decrease bond order (c1,c2) '
                'increase number of radical (c1) increase number of radical (c2)}']
    TWINS = [([SMARTS[0]], [RING[0]]), ([SMARTS[1]], [RING[1]]), ([SMARTS[1]], [RING_DEC[0]]), ([SMARTS[4]], [RING_DEC[1]]),
             ([SMARTS[0], SMARTS[1]], [RING[0], RING_DEC[0]]), ([SMARTS[2], SMARTS[3]], [RING[2], RING[3]])]
    twin_idx = []
    # a three-atom pattern with an edit on one end only, as SMARTS and as RING text, on seeds that are NOT symmetric along the chain
    for seeds, a, b in ((['CCCO'], ['[C:1][C:2][C:3]>>[C:1].[C:2][C:3]'], [ASYM[0]]), (['CCOC'], ['[C:1][O:2][C:3]>>[C:1].[O:2][C:3]'], [ASYM[1]]),
                        (['CC(C)CO'], ['[C:1][C:2][C:3]>>[C:1].[C:2][C:3]'], [ASYM[0]]), (['CCCC=O'], ['[C:1][C:2][C:3]>>[C:1].[C:2][C:3]'], [ASYM[0]])):
        twin_idx.append((len(jobs), len(jobs) + 1))
        jobs.append({'seeds': seeds, 'rules': a, 'timeout': 300})
        jobs.append({'seeds': seeds, 'rules': b, 'timeout': 300})
    for k in range(ctx.n(8, 80)):
        a, b = TWINS[k % len(TWINS)]
        seeds = rng.sample(['CC', 'CCC', 'C=C', 'CC=C', 'CCO', 'CO', 'CCCC', 'CC(C)C'], rng.choice([1, 1, 2]))      # acyclic: see note
        twin_idx.append((len(jobs), len(jobs) + 1))
        jobs.append({'seeds': seeds, 'rules': a, 'timeout': 300})
        jobs.append({'seeds': seeds, 'rules': b, 'timeout': 300})
    res = vlib.run_impl_sharded('net', jobs, timeout=3000)
    for a, b in twin_idx:
        ra, rb = res[a], res[b]
        if 'impl' in ra and 'impl' in rb and sorted(ra['impl']) != sorted(rb['impl']):
            ctx.violate('twin:%s|%s' % (','.join(jobs[a]['seeds']), jobs[b]['rules'][0][:30]),
                        'the same rules given as reaction SMARTS and as RING text generate different networks',
                        {'seeds': jobs[a]['seeds'], 'smarts': jobs[a]['rules'], 'ring': jobs[b]['rules']}, sorted(ra['impl'])[:12], sorted(rb['impl'])[:12])
    rows = []
    hist = {'networks': 0, 'species_total': 0, 'skipped_capped': 0, 'max_species': 0}
    for j, r in zip(jobs, res):
        if '_child_failed' in r or 'job_exc' in r:
            ctx.broken.append('implementation child failed: %s' % str(r)[:300])
            continue
        key = 'net:%s|%s' % (','.join(j['seeds']), ' ; '.join(x[:30] for x in j['rules']))
        ctx.count(key)
        if 'impl_exc' in r:
            ctx.violate('net-exc:%s' % r['impl_exc'], 'GenerateRxnNet raised %s (or did not terminate in time)' % r['impl_exc'], j, 'species list', r)
            continue
        cl = r.get('closure')
        if not cl or not cl['complete']:
            hist['skipped_capped'] += 1
            continue
        hist['networks'] += 1
        hist['species_total'] += len(cl['species'])
        hist['max_species'] = max(hist['max_species'], len(cl['species']))
        impl = r['impl']
        want = cl['species']
        dup = sorted(set(x for x in impl if impl.count(x) > 1))
        if dup:
            ctx.violate(key + '|dup', 'the species list contains a species twice', j, 'no duplicates', dup[:5])
        missing = [x for x in want if x not in impl]
        extra = [x for x in impl if x not in want]
        if missing:
            ctx.violate(key + '|missing', 'a species obtainable by applying the rules (or a seed) is not listed', j, missing[:5], len(impl))
        if extra:
            ctx.violate(key + '|extra', 'a listed species is not obtainable from the seeds', j, 'closure only', extra[:5])
        ids = {c: i for i, c in enumerate(cl['species'])}
        if all(x in ids for x in impl):
            rows.append((j, cl, [ids[x] for x in impl]))
        ctx.sample({'seeds': j['seeds'], 'rules': [x[:40] for x in j['rules']], 'species': len(want)}, limit=4)
    shards = []
    step = 40
    for s in range(0, len(rows), step):
        body = ';\n'.join('(%s, %s, %s)' % (g_list([g_list(['%d' % x for x in (e or [])]) for e in cl['expand']]),
                                           g_list(['%d' % x for x in cl['seeds']]), g_list(['%d' % x for x in impl]))
                          for _, cl, impl in rows[s:s + step])
        shards.append(HEADER + 'Definition cases : list (list (list nat) * list nat * list nat) := [\n%s\n].\nEval vm_compute in mm 0 cases.\n' % body)
    nbad = 0
    for k, (ok, out) in enumerate(vlib.run_cases_sharded('c17_' + ctx.tier, shards, timeout=1200)):
        val = vlib.coq_eval_value(out) if ok else None
        if val is None:
            ctx.broken.append('correspondence C17 shard %d did not evaluate: %s' % (k, out[-300:]))
            continue
        for i in vlib.parse_nat_list(val):
            nbad += 1
            j = rows[k * step + i][0]
            ctx.violate('corr:%s|%s' % (','.join(j['seeds']), j['rules'][0][:30]), 'the Coq work list on the closure table and GenerateRxnNet disagree',
                        j, 'model species multiset', rows[k * step + i][2])
    ctx.coverage.update({
        'rule': 'seed sets of 1..2 molecules from %d x 1..3 rules from a pool of 6 reaction-SMARTS or 4 RING-text scission rules; distinct by (seeds, rules)' % len(SEEDS),
        'histogram': hist, 'correspondence_cases': len(rows), 'correspondence_mismatches': nbad})


def replay(ctx, rec):
    c = rec['case']
    if not isinstance(c, dict) or 'seeds' not in c:
        return True
    r = vlib.run_impl_sharded('net', [{'seeds': c['seeds'], 'rules': c['rules'], 'timeout': 300}])[0]
    if 'impl' not in r or not r.get('closure') or not r['closure']['complete']:
        return False
    return sorted(r['impl']) == sorted(r['closure']['species'])
