"""Translators: repository data -> Gallina (coq/Gen/*.v), run on every check.
Each is fail-closed: an unknown shape raises and the check reports the
property as no longer shown."""
import os
import sys
import vlib

GEN_DIR = os.path.join(vlib.COQ, 'Gen')
GENERATORS = {}


def generator(name):
    def deco(fn):
        GENERATORS[name] = fn
        return fn
    return deco
