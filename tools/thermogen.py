"""Generators for correlations and synthetic libraries (DESIGN 5.21)."""
import os
import shutil
import vlib

SHIPPED = ['BensonGA', 'GRWAqueous2018', 'GRWSurface2018', 'GuSolventGA2017Aq',
           'GuSolventGA2017Vac', 'PPY', 'PtSurface2023', 'SalciccioliGA2012',
           'XieGA2022']
SYN_NAMES = ['C(C)(H)3', 'C(C)2(H)2', 'C(C)3(H)', 'C(C)4', 'O(C)(H)', 'O(C)2',
             'CO(C)(H)', 'CO(C)2', 'C(C)(H)2(O)', 'C(C)2(H)(O)', 'C[d](C)(H)',
             'C[d](H)2', 'C(C)(H)2(Pt)', 'C(C)(H)(Pt)2', 'N[A](C)(H)2']
SYN_DESCR = ['Cis', 'Ring5', 'Gauche', 'OrthoX']


def rnd_table(rng, n=None, adversarial=False):
    """(Ts, Cps) with distinct temperatures, supply order shuffled"""
    if n is None:
        n = rng.choice([1, 2, 3, 4, 5, 8, 12, 16])
    kind = rng.choice(['equal', 'geometric', 'random'])
    t0 = rng.choice([100.0, 200.0, 298.15, 300.0])
    if kind == 'equal':
        step = rng.choice([50.0, 100.0, 125.5])
        Ts = [t0 + i * step for i in range(n)]
    elif kind == 'geometric':
        Ts = [round(t0 * (1.17 ** i), 3) for i in range(n)]
    else:
        Ts = sorted(set(round(rng.uniform(t0, t0 + 1400), 2) for _ in range(n)))
        while len(Ts) < n:
            Ts = sorted(set(Ts + [round(rng.uniform(t0, t0 + 1400), 2)]))
    if adversarial:
        Cps = [rng.choice([0.0, -1.5, 2.0, 2.0, rng.uniform(-5, 5)]) for _ in Ts]
    else:
        a, b = rng.uniform(0.5, 4), rng.uniform(2, 9)
        Cps = [round(a + b * (1 - 300.0 / (T + 300.0)) + rng.uniform(-0.05, 0.05), 4) for T in Ts]
    idx = list(range(len(Ts)))
    rng.shuffle(idx)
    return [Ts[i] for i in idx], [Cps[i] for i in idx]


def rnd_corr(rng, allow_missing=True):
    """a ThermochemIncomplete-shaped record"""
    c = {'T_ref': rng.choice([298.15, 298.0, 300.0, 500.0])}
    has_tab = rng.random() < 0.75
    if has_tab:
        Ts, Cps = rnd_table(rng, adversarial=rng.random() < 0.2)
        lo, hi = min(Ts + [c['T_ref']]), max(Ts + [c['T_ref']])
        if rng.random() < 0.6:
            lo = round(lo - rng.choice([0.0, 50.0, 98.15]), 3)
            hi = hi + rng.choice([0.0, 100.0, 500.0])
        c.update(Ts=Ts, Cps=Cps, range=[max(lo, 1.0), hi])
    else:
        c.update(Ts=[], Cps=[])
        c['range'] = rng.choice([None, [100.0, 1500.0], [200.0, 1000.0]])
    r = rng.random()
    if allow_missing and r < 0.12:
        c['H'] = None
    elif r < 0.22:
        c['H'] = 0.0
    else:
        c['H'] = round(rng.uniform(-60, 40), 4)
    r = rng.random()
    if allow_missing and r < 0.12:
        c['S'] = None
    elif r < 0.2:
        c['S'] = 0.0
    else:
        c['S'] = round(rng.uniform(-5, 40), 4)
    return c


def corr_yaml_nd(c, ind='      '):
    lines = ['%sT_ref: %r K' % (ind, c['T_ref'])]
    if c.get('H') is not None:
        lines.append('%sND_H_ref: %r' % (ind, c['H']))
    if c.get('S') is not None:
        lines.append('%sND_S_ref: %r' % (ind, c['S']))
    if c.get('Ts'):
        lines.append('%sND_Cp_data:' % ind)
        for T, cp in zip(c['Ts'], c['Cps']):
            lines.append('%s  - [%r K, %r]' % (ind, T, cp))
    if c.get('range'):
        lines.append('%srange: [%r K, %r K]' % (ind, c['range'][0], c['range'][1]))
    return '\n'.join(lines)


def write_library(dirpath, groups, descriptors=None, empty=None, uq=None, extra=''):
    """groups/descriptors: name -> corr record; empty: names without thermochem"""
    if os.path.exists(dirpath):
        shutil.rmtree(dirpath)
    os.makedirs(dirpath)
    with open(os.path.join(dirpath, 'scheme.yaml'), 'w') as f:
        f.write('patterns: []\n')
    out = ['groups:']
    for name, c in groups.items():
        out.append("  '%s':\n    'thermochem':\n%s" % (name, corr_yaml_nd(c)))
    for name in (empty or []):
        out.append("  '%s': {}" % name)
    if descriptors:
        out.append('other_descriptors:')
        for name, c in descriptors.items():
            out.append("  '%s':\n    'thermochem':\n%s" % (name, corr_yaml_nd(c)))
    if uq:
        out.append(uq)
    path = os.path.join(dirpath, 'library.yaml')
    with open(path, 'w') as f:
        f.write('\n'.join(out) + '\n' + extra)
    return path


def rnd_library(rng, dirpath, with_uq=False, uq_kind=None):
    k = rng.randint(3, 10)
    names = rng.sample(SYN_NAMES, k)
    groups = {n: rnd_corr(rng) for n in names}
    # look-alikes: another entry with the same reference values and the same Cp temperatures but other Cp values
    # (two correlations are the same datum only if ALL their data agree)
    for n in list(names)[:2]:
        g = groups[n]
        spare = [x for x in SYN_NAMES if x not in names]
        if g['Ts'] and spare and rng.random() < 0.6:
            n2 = spare[0]
            names = list(names) + [n2]
            groups[n2] = dict(g, Cps=[round(c + rng.choice([0.5, -0.75, 2.0]), 6) for c in g['Cps']])
    descr = {n: rnd_corr(rng) for n in rng.sample(SYN_DESCR, rng.randint(0, 2))}
    empty = [n for n in SYN_NAMES if n not in names][:rng.randint(0, 2)]
    uq = None
    basis = None
    if with_uq:
        basis = list(names) + list(descr)
        # some entries with data stay outside the uncertainty basis (estimating them must be refused)
        for _ in range(rng.choice([0, 1, 2])):
            if len(basis) > 3:
                basis.pop(rng.randrange(len(basis)))
        n = len(basis)
        # random symmetric PSD: A'A with small integers /10
        A = [[rng.randint(-9, 9) / 10.0 for _ in range(n)] for _ in range(n)]
        M = [[round(sum(A[r][i] * A[r][j] for r in range(n)), 6) for j in range(n)] for i in range(n)]
        kind_ = uq_kind or ('int' if rng.random() < 0.3 else 'nonsym' if rng.random() < 0.4 else 'float')
        if kind_ == 'int':
            # written without decimal points: the stored matrix is integer typed, the counts it multiplies need not be
            A = [[rng.randint(-3, 3) for _ in range(n)] for _ in range(n)]
            M = [[sum(A[r][i] * A[r][j] for r in range(n)) for j in range(n)] for i in range(n)]
        elif kind_ == 'nonsym':
            # not symmetric as stored: an antisymmetric part leaves x'Mx (and its sign) unchanged
            for i in range(n):
                for j in range(i + 1, n):
                    k_ = rng.choice([0.0, 0.25, -0.5, 1.0])
                    M[i][j] = round(M[i][j] + k_, 6)
                    M[j][i] = round(M[j][i] - k_, 6)
        rm = rnd_corr(rng, allow_missing=False)
        if not rm['Ts']:
            rm['Ts'], rm['Cps'] = [300.0, 400.0, 500.0], [0.5, 0.4, 0.3]
            rm['range'] = [100.0, 1500.0]
        uq = ("UQ:\n  RMSE:\n    'thermochem':\n%s\n  DOF:\n    %d\n  InvCovMat:\n    'mat':\n      %r\n    'groups':\n      %r"
              % (corr_yaml_nd(rm, '      '), rng.randint(5, 99), M, basis))
    path = write_library(dirpath, groups, descr, empty, uq)
    return {'path': path, 'groups': groups, 'descr': descr, 'empty': empty, 'basis': basis}
