#!/usr/bin/env python3
"""Writes /verif/MANIFEST.json from the table below (kept in one place so the
manifest stays valid as properties are added)."""
import json
import os
import subprocess

ROOT = os.path.dirname(os.path.dirname(os.path.abspath(__file__)))

TB = ('Trusted: Coq 8.16.1 kernel incl. vm_compute (no native_compute); axioms exactly as Print Assumptions '
      'reports them (copied into the evidence file on every run); the translators in tools/gen.py; the '
      'correspondence harness (generators, canonicalisation) in tools/props and tools/impl; the hand-written '
      'Gallina model is tied to the code only by that correspondence. ')

CLAIMED = {
    'C19': dict(
        text='Machine-checked proof (Coq) over a hand-written executable model of Group.parse/_canonical_name/'
             '__eq__/__hash__: equality <-> same centre and same multiset, canonical name parses back, every '
             'ordering/run-length spelling parses to the same group, outcome classification; all for unbounded '
             'names and multisets. Tied to the code on every run by a bounded-exhaustive correspondence '
             '(model evaluated by vm_compute inside coqc vs implementation) and a direct oracle on the '
             'implementation (==, hash, dict and GroupLibrary lookups, str interop, reparse).',
        design='5 / C19',
        note=TB + 'Closed under the global context (no axioms). Guard: ASCII digits only for str.isdigit; '
             'names without parentheses, non-empty, not all digits.',
        technique='Coq proof of model (round-trip + injectivity via parse as left inverse) + vm_compute correspondence'),
    'C01': dict(
        text='Machine-checked proof (Coq, over the reals) about the executable model of GroupLibrary.Estimate and '
             'ThermochemGroupAdditive.get_*: the estimate is the count-weighted sum with the union of warnings, raises exactly '
             'when a constituent raises (first in mapping order), is permutation-invariant, G=H-S, and the missing-data error names '
             'exactly the descriptors lacking the property set (never a partial sum); for all mappings, libraries, temperatures. '
             'Tie: the same Gallina term is executed over exact rationals against the implementation on generated cases; direct '
             'oracle on all unit vectors of all nine shipped and synthetic libraries plus random mappings.',
        design='5 / C01',
        note=TB + 'Axioms: the standard library real-number axioms (ClassicalDedekindReals.sig_forall_dec, sig_not_dec, '
             'FunctionalExtensionality.functional_extensionality_dep) as printed. Constituent correlation values are '
             'taken from the implementation (C05 covers them). Float sums compared at 1e-11 relative tolerance.',
        technique='Coq proof over R of a fold model + vm_compute correspondence over Q + direct oracle'),
    'C05': dict(
        text='Machine-checked proof (Coq, reals) about the executable model of ThermochemRawData/ThermochemIncomplete: tabulated Cp/R '
             'reproduced at its temperature, Cp clamped outside the span, H/RT and S/R at T_ref equal the reference values for every '
             'placement of T_ref, G = H - S, construction independent of supply order (sorting uniqueness), data span bounds; for all '
             'tables and placements. The spline is an explicit function parameter whose assumed contract appears as hypotheses. '
             'Integral clauses are theorems over Coquelicot is_RInt: T*H/RT = H_ref*T_ref + integral of the clamped Cp/R from T_ref to T, '
             'S/R = S_ref + integral of Cp/R/t, and differences between any two temperatures are those integrals, for every placement '
             'of T_ref and T; the contract of spline.integral / quad (they are the integrals of the spline) is a hypothesis, probed by a '
             'numerical-quadrature oracle on the implementation on every run. Tie: model executed over exact rationals with '
             'oracle tables from the same SciPy objects vs implementation.',
        design='5 / C05',
        note=TB + 'Axioms: standard-library real-number axioms as printed (also via Coquelicot). SciPy spline/quad/log are oracles (tables in the '
             'correspondence, hypotheses in the theorems).',
        technique='Coq proof over R of the branch-faithful model + vm_compute correspondence with oracle tables + quadrature oracle'),
    'C06': dict(
        text='Machine-checked proof (Coq, reals): the estimate range is the intersection of constituent ranges (max/min fold), raw '
             'correlations raise outside and are defined inside their range, group correlations with a table raise IncompleteDataError '
             'outside, table-less ones return the reference value with the warning exactly when T <> T_ref, raising/warning '
             'constituents make the estimate raise/warn; plus a refuted-strengthening theorem documenting the known finding. '
             'Tie: correspondence over exact rationals (range fold, construction, evaluation at inside/boundary/outside temperatures) '
             'and a direct oracle on correlations and estimates of shipped and synthetic libraries.',
        design='5 / C06',
        note=TB + 'Axioms: standard-library real-number axioms as printed. Float overflow is outside the model (oracle tests isfinite).',
        technique='Coq case-analysis proofs over R + vm_compute correspondence + boundary-temperature oracle'),
    'C07': dict(
        text='Machine-checked proof (Coq, reals): H=(H/RT)*T*R, S=(S/R)*R, Cp=(Cp/R)*R, G=H-T*S, values in two units differ by the ratio of '
             'the two gas constants, the elemental offset is the sum of tabulated entropies over the atom list (order-free) and shifts S/R '
             'down and G/RT up by exactly that sum; for all estimates, units, temperatures. Tie: correspondence over exact rationals and a '
             'direct oracle over all 16 unit strings pmutt accepts, generated molecules decomposed immediately before the estimate, atom '
             'lists taken independently from RDKit, cross-unit ratios against SI definitions.',
        design='5 / C07',
        note=TB + 'Axioms: standard-library real-number axioms as printed. pmutt R(u) and S_elements tables are externals read at run time.',
        technique='Coq ring/field proofs over R + vm_compute correspondence + unit-sweep oracle'),
    'C20': dict(
        text='Machine-checked proof (Coq, reals): SE^2 = RMSE^2 * x\'Mx with x placed in basis order, SE=|RMSE|*sqrt(x\'Mx) for a non-negative '
             'form, SE>=0, scaling all counts by k scales SE by |k| (bilinearity of the form, placement commutes with scaling), mapping order '
             'does not matter (distinct keys), an out-of-basis descriptor is an error; for all count vectors, matrices and temperatures. '
             'Tie: correspondence over exact rationals per library (basis and matrix exported from the loaded library) and a direct oracle on '
             'unit vectors, random, scaled, permuted and out-of-basis mappings for shipped and synthetic libraries. For the shipped libraries the '
             'hypothesis x\'Mx >= 0 is discharged: C20_shipped_se_square_nonneg (every mapping over the basis, every RMSE value) from the '
             'kernel-checked positive-semi-definiteness certificates of the regenerated matrices (C14).',
        design='5 / C20',
        note=TB + 'Axioms: standard-library real-number axioms as printed. sqrt and the RMSE correlation are taken from the implementation.',
        technique='Coq proofs over R (bilinear form, permutation of placements) + vm_compute correspondence + oracle'),
    'C10': dict(
        text='Machine-checked proof (Coq): (i) finite theorems over the unit and prefix tables REGENERATED from /repo on every run - every '
             'documented unit evaluates (through the model of tokeniser, parser, prefix lookup and evaluator) to the SI value and seven exponents '
             'of an independently written SI table; every prefix is its power of ten; every prefix x unit (exhaustive) is 10^k times the unit '
             'unless shadowed - by vm_compute lifted with forallb_forall; (ii) for all inputs: conversion is the ratio of magnitudes, there-and-back '
             'is the identity, incompatible conversion raises UnitsError; for EVERY text the parser ends with a tree or the units parse error and '
             'never runs out of fuel (progress of every factor), and the evaluator ends with a value, the parse error, or one of the named '
             'arithmetic guards - never another exception. A table change that contradicts SI breaks a proof obligation; the search then '
             'names the unit and confirms it on the implementation. Tie: correspondence of the whole evaluator on names x prefixes (exhaustive), '
             'generated expression trees, malformed variants, bounded-exhaustive token strings.',
        design='5 / C10',
        note=TB + 'Closed under the global context. Guards: ASCII digits (Python \\d/float() on other scripts outside the model), no float '
             'overflow; non-integer powers of magnitudes supplied as a table; parser fuel adequacy (no Hang) is tested, not proved; '
             'parse_print/eval_hom of DESIGN 5/C10 not yet proved.',
        technique='Coq: regenerated-table theorems by vm_compute+forallb_forall, parser/evaluator classification by induction; vm_compute correspondence'),
    'C11': dict(
        text='Machine-checked proof (Coq) over the model of the Quantity operators with Python dispatch: different exponent vectors or a non-zero '
             'bare number make + - < <= > >= raise UnitsError and == false / != true; a bare zero is accepted; on compatible operands each operator '
             'equals the operation on SI magnitudes (order lemmas in both directions); * and / add and subtract exponents and give a plain number '
             'exactly when all cancel; exponentiation by a quantity is rejected; for all magnitudes and exponent vectors. Tie: correspondence and '
             'direct oracle exhaustive over ordered pairs of 16 dimensions x 10 operators with equal/negative/zero magnitudes, bare numbers on both '
             'sides, powers, neg, abs; arrays by the oracle only.',
        design='5 / C11',
        note=TB + 'Closed under the global context. Array semantics (NumPy dispatch) tested, not proved.',
        technique='Coq case-analysis proofs over Q + vm_compute correspondence + exhaustive dimension-pair oracle'),
    'C12': dict(
        text='Machine-checked proof (Coq) over the loader model built on the C10 evaluator: any molar enthalpy / entropy / heat capacity, in '
             'whatever compatible unit it was written (the quantity carries its SI magnitude), becomes a PLAIN number after division by the '
             'declared gas constant (and T_ref) with the stated value; equal SI quantities load to equal numbers; zero is a quantity like any '
             'other; a bare number with no default unit is rejected; an explicit unit needs no default. Tie: correspondence of qty_load/nd_H/nd_S/'
             'in_K on the generated values, and a direct oracle: each synthetic library is written in five presentations (default-unit block, '
             'explicit units incl. prefixes, non-dimensional keys, two mixtures), loaded through GroupLibrary.Load and compared pairwise and '
             'against the truth, incl. plain-number type checks.',
        design='5 / C12',
        note=TB + 'Closed under the global context. YAML text -> tree (PyYAML, yaml_io/schema.py) is outside the model; exponent notation in unit '
             'strings is outside the unit grammar (not generated).',
        technique='Coq proofs over Q on the C10 evaluator + vm_compute correspondence + five-presentation load oracle'),
    'C13': dict(
        text='Machine-checked proof (Coq, reals) over the model of ThermochemIncomplete.update / GroupLibrary.Update / the include driver, '
             'whose step returns the new state AND what was raised: a rejection (read-only-data, incomplete-data) leaves the correlation '
             'unchanged; a successful merge keeps T_ref, takes the union of ranges, and its table is the union map (other wins); a conflicting '
             'datum is rejected; overwrite never is; a file naming one group twice is rejected and distinct names are all accepted; ORDER-FREENESS of '
             'the Cp table and the valid range: a table is accepted iff its data agree with what is there, whether two files are both accepted does '
             'not depend on their order, and when they are the merged table is the same map and the merged range the same interval; at the '
             'level of whole LIBRARIES GroupLibrary.Update is proved to work group by group and two libraries merged into a third in either order '
             'leave every group with the same table and range - also stated for a library FILE with two includes loaded in either order '
             '(C13_library_update_groupwise, C13_library_order_free, C13_two_includes_order_free, C13_loaded_keys_unique); for ANY NUMBER of libraries in ANY ORDER: the merged table is exactly the union of what the sources give for the group, and permuted merge sequences / permuted include lists agree on every table and range (C13_library_sequence_is_union, C13_library_sequence_range, C13_library_any_order, C13_includes_any_order; for deeper '
             'include trees and the reference values order-freeness is decided by the tree oracle; for files sharing one T_ref the merged reference enthalpy AND entropy are the other file\'s value where given - after the tolerance comparison - else the value there: C13_update_H_same_Tref, C13_update_S_same_Tref). IDEMPOTENCE: merging the same correlation a second '
             'time succeeds and returns the identical correlation - table, range, reference enthalpy and entropy, re-fit (C13_update_twice, for any '
             'reflexive isclose). '
             'Tie: correspondence of update sequences (state after every step) and of include trees; direct oracle: union / conflict / '
             'atomicity / idempotence on sequences, and all include orders and nestings (star, chain) of split data loading to equal contents.',
        design='5 / C13',
        note=TB + 'Axioms: standard-library real-number axioms as printed. Files share one T_ref (quantifier); order-freeness of tables and ranges over any number of included libraries in any permutation is a theorem, of reference values and acceptance over more than two files and over arbitrary '
             'include trees it is decided by the oracle over all generated orders.',
        technique='Coq proofs over R of a state+exception step model + vm_compute correspondence + all-orders load oracle'),
    'C18': dict(
        text='Machine-checked proof (Coq): the meaning of "to the six significant digits written" - any correct 6-digit rounding has relative '
             'error <= 5e-6 (and the reference rounding used by the check is a correct rounding); over the reals: writing in any unit of positive size '
             'and reading back keeps that relative error in SI, and a non-dimensional value recomputed from two written values (H/(R T_ref)) is off by '
             'at most 2 eps/(1-eps) - the tolerances of the oracle. The formatter/loader text layer is decided '
             'by execution on every run: yaml_format(units) -> library file -> GroupLibrary.Load for random correlations (incl. zero / missing '
             'parts, -0.0, 13-digit values) x 8 unit choices and for groups of every shipped library: exactness in the non-dimensional form, '
             '6-digit bounds in the dimensional form, presence of every part, temperatures equal to the 6-digit rounding (checked in Coq).',
        design='5 / C18',
        note=TB + 'Rounding bound over Q closed under the global context; the two value-level theorems over R use the standard-library real-number axioms. Partial: the theorems cover the rounding bounds; presence/exactness are decided by the '
             'round-trip oracle because the text layer (PyYAML, NumPy repr) is runtime.',
        technique='Coq proof of the rounding bound over Q + executed round-trip oracle + vm_compute check of written temperatures'),
    'C09': dict(
        text='Machine-checked proof (Coq) about the executable model of the PEG interpreter (combinators, stream state, furthest-error merging): for '
             'EVERY text and every classification of non-ASCII characters, Parser.parse on the grammar object REGENERATED from /repo on every run ends '
             'with a parse tree or a syntax error whose (line, column) lies inside the text - it never runs out of fuel above an explicit bound linear '
             'in the text length and never ends with another exception (theorem C09_parse_total). Proved by induction over fuel x expression for ANY '
             'grammar carrying a certificate (nullable table + ranking = no left recursion through nullable prefixes; closed; no empty alternative '
             'list); the certificate of the current grammar is computed and checked by the kernel on every run. Plus primitives (digits convertible, '
             'scanner stays inside the text, progress). The reader stage (tree -> query) is total by construction and classified by its result type; '
             'its agreement and the parser model are tied to the implementation by the correspondence (parse tree, outcome class, error line/column) '
             'on generated, truncated, token-edited, random, non-ASCII and constraint-block texts, each Read under a 5 s alarm, and the direct oracle.',
        design='5 / C09',
        note=TB + 'Closed under the global context. Wall-clock time and the host recursion limit are runtime (known finding for very long '
             'chains); reading of rule texts is C16.',
        technique='Coq totality / position / classification proofs for the PEG interpreter with a kernel-checked certificate of the regenerated grammar + vm_compute correspondence with time-outs'),
    'C08': dict(
        text='Machine-checked proof (Coq) about the executable matcher model (own embedding enumeration + the three constraint filters): for every '
             'fragment the reader accepts and every molecule, a tuple is returned IF AND ONLY IF it is an embedding the fragment denotes (declarative '
             'Denotes: one distinct molecule atom per declared atom, of its element class and charge, every declared bond present with a compatible '
             'type - no reference to enumeration order) that passes the molecule prefix and all bond / atom / stereo constraints; tuples are in '
             'declaration order and none is returned twice; reader-accepted fragments are proved well-formed. Layout/label independence of the '
             'text reader and the RDKit primitives are decided by the bounded-exhaustive correspondence (977 small fragments x small molecules + '
             'random) and the layout/label variant oracle.',
        design='5 / shared core G, C08',
        note=TB + 'Closed under the global context. RDKit Atom/Bond match primitives are rendered by qatom_ok/qbond_ok (calibrated by the '
             'correspondence); cap of 10000 raw embeddings is a guard.',
        technique='Coq soundness and completeness proofs (induction over the placement order; reader invariant) + vm_compute correspondence on exported molecule graphs'),
    'C02': dict(
        text='Machine-checked proof (Coq): finite theorem over the nine scheme files REGENERATED from /repo on every run and read by the Coq '
             'parser+reader (every pattern readable, remaps well-formed, chain-free, unique sources, no molecule prefix); for all schemes and molecule graphs: a '
             'decomposition is returned only if EVERY atom is hit by exactly one centre pattern, whose names it then carries, and an atom hit by '
             'none or by several makes the call fail (assign_centres_unique / assign_centres_fails, invariant over the pattern list); before the remaps '
             'the count of a group name is the number of atoms contributing it; a correction descriptor is counted once per distinct atom set '
             '(cover + pairwise distinct); remaps act as a linear substitution on dictionaries with unique keys for chain-free tables; the only failure is the pattern-match '
             'error and it happens exactly when centre assignment fails, dictionary counting is addition on the named entry; all clauses in one statement: '
             'C02_decomposition_spec (what a successful call returns, name by name). The model Graph/Scheme.v '
             'is the independent interpreter of the scheme file; its agreement with GetDescriptors on generated molecules of every scheme is '
             'decided by the correspondence on every run.',
        design='5 / C02',
        note=TB + 'Closed under the global context. RDKit front end (SMILES, kekulisation, ring perception) external; prepared graph computed by the harness.',
        technique='Coq finite theorems on regenerated schemes + structural lemmas + vm_compute correspondence of the scheme interpreter'),
    'C03': dict(
        text='Machine-checked proof (Coq), matcher level: for every fragment the reader accepts without a molecule prefix and every well-formed '
             'molecule graph, renumbering the atoms by any permutation renumbers the matches and nothing else - Permutation (matches f (rename m)) '
             '(map (map phi) (matches f m)) - proved through a general component-embedding theorem (atoms, bonds, neighbourhoods, ring membership, '
             'ring counts, stereo atoms are carried along). Plus: the order-dependence of the Benson aromatisation on fused alternating rings as a '
             'refutation witness (known finding), its independence of start atom/direction for a single ring (finite), set-based descriptor '
             'counting. Dictionary level (C03_descriptors_renumbering): for every scheme with reader-produced prefix-free patterns and a chain-free remap '
             'table, the returned descriptor dictionary (centre assignment, group naming, distinct-set descriptor counts, remaps, '
             'groups.update(descriptors)) of the renumbered prepared graph is the same map; and at the level of the model entry point: the Benson '
             'aromatisation commutes with the renumbering when the ring list is carried along in the same order, so get_descriptors on the renumbered '
             'input fails exactly when the original fails and otherwise returns the same map (C03_get_descriptors_renumbering) - the ORDER of the '
             'ring list is the only spelling dependence (refuted for fused rings: known finding). PARTIAL only in that RDKit producing isomorphic prepared '
             'graphs for equivalent spellings is external; it is decided on the implementation on every run: all atom permutations for <=6 heavy atoms, random renumberings and random '
             'SMILES, Kekule form, explicit hydrogens, molecule object - identical descriptors or identical failure.',
        design='5 / C03',
        note=TB + 'Closed under the global context. RDKit producing isomorphic prepared graphs for equivalent spellings is external.',
        technique='Coq equivariance proof of the matcher under renumbering + refutation witness + spelling-invariance oracle on the implementation'),
    'C04': dict(
        text='Machine-checked proof (Coq), matcher level: for every fragment the reader accepts without a molecule prefix (no shipped pattern has '
             'one: finite theorem on the regenerated scheme files) and all well-formed component graphs, the matches of the pattern in the mixture '
             '(disjoint union) are exactly the matches in the first component together with the shifted matches in the second, each once '
             '(Permutation; match counts add) - a match never straddles components and is not influenced by the other component; reader-accepted '
             'fragments are proved connected. Dictionary level: centre names of the mixture are those of the components (C04_centres_of_mixture), the group '
             'counts and the correction-descriptor counts of the mixture are the entry-wise sums after remaps (C04_groups_additive, '
             'C04_correction_descriptors_additive), and the returned dictionary is the sum whenever no occurring correction-descriptor name is also an '
             'occurring group name (C04_descriptors_additive; groups.update(descriptors) replaces); at the level of the model entry point the '
             'aromatisation acts component by component and get_descriptors on the mixture succeeds exactly when it succeeds on both components '
             'and then returns that sum (C04_get_descriptors_of_mixture). PARTIAL only in the RDKit front end (ring list of a '
             'disconnected molecule = union of the components\' ring lists); decided on the implementation on every run: stress pairs in both orders, random pairs, self-pairs and '
             'triples incl. undecomposable components.',
        design='5 / C04',
        note=TB + 'Closed under the global context.',
        technique='Coq additivity proof of the matcher over disjoint unions + finite theorem on regenerated schemes + mixture oracle on the implementation'),
    'C14': dict(
        text='PARTIAL. Machine-checked (Coq): finite theorem over the nine scheme files regenerated from /repo on every run (every pattern readable by '
             'the Coq reader, remaps well-formed and chain-free); the data-directory cache never changes its answer once given, the override wins, '
             'failures are not cached, builtin names resolve to the same relative path under any data directory, path-like names are taken as paths. '
             'Exhaustive on the implementation on every run: nine libraries x three ways of locating them (fresh process each) with identical '
             'content fingerprints (plus relative paths, symlinked directories, a directory relocated alone, a second load after an overwriting '
             'merge), every group evaluated at range ends / midpoint / T_ref / every knot, every pattern compiled, basis entries with data. '
             'UNCERTAINTY MATRICES: regenerated from the data files on every run as exact integer matrices (every entry is an IEEE double = integer / '
             '2^scale; tie: entry-for-entry equality with the matrix the loaded library object holds) and proved square, symmetric and POSITIVE '
             'SEMI-DEFINITE for every real vector by a certificate the kernel checks on every run (C14_uq_certificates, C14_uq_psd via '
             'C14_certificate_sound: M = L L^T + D with D symmetric, diagonally dominant; the factor L is untrusted input computed by the '
             'translator). PARTIAL only in that library YAML contents other than the matrices are not translated and the file system is runtime.',
        design='5 / C14',
        note=TB + 'Axioms: standard-library real-number axioms as printed for the PSD theorems (they quantify over real vectors); the scheme and '
             'cache theorems are closed under the global context. Translator tools/gen.py (uq) is trusted to read the matrix (checked against '
             'the loaded library on every run); the certificate factor is NOT trusted.',
        technique='Coq finite theorems + kernel-checked PSD certificates on regenerated matrices + cache state-machine proofs + exhaustive load audit'),
    'C16': dict(
        text='Machine-checked proof (Coq): for every rule, molecule and match - no edit sequence adds, removes or transmutes an atom (atoms '
             'of every element are conserved), atoms that are not images of labelled atoms are untouched, one product graph per match; every rule that the '
             'reader accepts has a zero electron balance on EVERY labelled atom w.r.t. an independent per-edit specification (so any rule leaving one '
             'labelled atom unbalanced is rejected, even when imbalances cancel over the rule); each edit has exactly its declared effect on the pair / '
             'atom it names (bond removed / added with the declared type / order stepped / radical or charge +-1) and every other pair of atoms '
             'and every other atom is untouched (frame). The executable '
             'model (rule reader with doubled electron balance incl. the bond-type checks of break/modify, edit application per match) is compared '
             'with the implementation on every run: reading class of generated balanced / unbalanced / mislabelled rule texts and the complete '
             'product graph of every match (atom identity carried by atom-map numbers).',
        design='5 / C16',
        note=TB + 'Closed under the global context. Unimolecular rules with one reactant fragment; that RDKit applies the edit objects as the model does is the correspondence; '
             ' atom-type modification, groups, duplicates and constraints are unsupported constructs.',
        technique='Coq conservation/frame proofs over the edit semantics + vm_compute correspondence of rule reading and product graphs'),
    'C17': dict(
        text='Machine-checked proof (Coq) for the work list abstract in the species, for EVERY expand function and distinct seeds: the result contains '
             'the seeds, is closed under the rules, contains every reachable species and only reachable ones, lists nothing twice, and the loop '
             'terminates within |U|+1 iterations whenever the reachable set is contained in a finite duplicate-free U (invariant by induction '
             'over the iterations). Tie: an independent breadth-first closure computed by the harness gives the expand table; the Coq work list run on '
             'it must reproduce the species multiset of GenerateRxnNet; direct oracle: seeds present, closure complete, nothing extra, no duplicates.',
        design='5 / C17',
        note=TB + 'Closed under the global context. Species identity = canonical SMILES of the H-explicit graph (the implementation\'s '
             'sub-structure duplicate test is assumed to coincide on uncharged pools); unimolecular rules.',
        technique='Coq invariant proof over the work-list iterations + vm_compute run on the harness-computed closure table'),
    'C15': dict(
        text='Machine-checked proof (Coq) by induction over the operation list, for arbitrary (abstract, pure) decomposition / estimation / '
             'elemental-entropy functions: only a merge changes any library\'s data; descriptors and every property evaluated without the elemental '
             'reference are the same after ANY merge-free history as on the fresh state; with the elemental reference the answer uses the '
             'library\'s last decomposed molecule - history-freedom is formally refuted there (known finding). Differential test on every run: '
             'random interleavings of load / decompose / estimate+evaluate / fingerprint over five libraries and two objects each, every result '
             'compared with the same single operation in a fresh process.',
        design='5 / C15',
        note=TB + 'Closed under the global context. Only the modelled state (contents, last molecule) is covered by the theorems; state inside '
             'RDKit / NumPy / pmutt and the module-level registries is covered by the differential test only.',
        technique='Coq induction over operation histories of a state-machine model + fresh-process differential oracle'),
}

PENDING_REASON = 'check not built yet in this round (design in DESIGN.md section 5); not claimed until it runs'


def main():
    props = [json.loads(l) for l in open(os.path.join(ROOT, 'properties.jsonl'))]
    hooks_commits = []
    hp = os.path.join(ROOT, 'hooks_commits.txt')
    if os.path.exists(hp):
        hooks_commits = [l.split()[0] for l in open(hp) if l.strip()]
    man = {
        'version': 1,
        'setup_cmd': '/venv/bin/python check.py --setup',
        'hooks': {
            'guard': 'PGRADD_VERIF',
            'enable': 'export PGRADD_VERIF=1 (read at call time by the repository code; no build step)',
            'baseline_off_cmd': 'cd /repo && env -u PGRADD_VERIF /venv/bin/python -m pytest -ra -q '
                                '-p no:cacheprovider --timeout=900',
            'source_commits': hooks_commits,
            'add_only': True,
        },
        'engines': [
            {'name': 'coq-development', 'path': 'coq/', 'serves_properties': sorted(CLAIMED),
             'kind_free_text': 'Coq 8.16.1 models (executable Gallina), lemma files and Props/Cnn.v theorem files'},
            {'name': 'translators', 'path': 'tools/gen.py', 'serves_properties': sorted(CLAIMED),
             'kind_free_text': 'repository data -> coq/Gen/*.v on every run (fail-closed)'},
            {'name': 'correspondence+oracle', 'path': 'tools/props/', 'serves_properties': sorted(CLAIMED),
             'kind_free_text': 'generators, implementation children (tools/impl), cases.v evaluation, direct property oracles'},
        ],
        'checks': [],
        'not_applicable': [],
        'notes': 'check.py is the single entry point; VERIF_SEED and VERIF_TIER honoured; known findings in known_findings.json.',
    }
    for p in props:
        pid = p['id']
        if pid in CLAIMED:
            c = CLAIMED[pid]
            man['checks'].append({
                'property_id': pid,
                'quick_cmd': '/venv/bin/python check.py %s --tier quick' % pid,
                'thorough_cmd': '/venv/bin/python check.py %s --tier thorough' % pid,
                'evidence_file': 'evidence/%s.json' % pid,
                'replay_cmd_template': '/venv/bin/python check.py %s --replay {path}' % pid,
                'engine': 'coq-development',
                'level_claimed': {'category': 'proof', 'text': c['text'],
                                  'design_ref': 'DESIGN.md section ' + c['design']},
                'level_note': c['note'],
                'technique': c['technique'],
            })
        else:
            man['not_applicable'].append({'property_id': pid, 'reason': PENDING_REASON})
    with open(os.path.join(ROOT, 'MANIFEST.json'), 'w') as f:
        json.dump(man, f, indent=1)
    print('claimed', sorted(CLAIMED), 'pending', len(man['not_applicable']))


if __name__ == '__main__':
    main()
