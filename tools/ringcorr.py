"""Shared Coq-literal builders for the RING correspondences (C08, C09, C16)."""
import vlib
from vlib import g_str, g_list

BT = {'SINGLE': 'BtSingle', 'DOUBLE': 'BtDouble', 'TRIPLE': 'BtTriple', 'QUADRUPLE': 'BtQuad', 'AROMATIC': 'BtArom',
      'DATIVE': 'BtDative', 'ZERO': 'BtZero', 'OTHER': 'BtOther', 'UNSPECIFIED': 'BtUnspec'}
ST = {'STEREONONE': 'StNone', 'STEREOZ': 'StZ', 'STEREOE': 'StE'}


def classes(texts):
    """CPython's classification of the non-ASCII characters that occur"""
    xs = sorted(set(ord(c) for t in texts for c in t if ord(c) >= 128))

    def dv(c):
        try:
            return int(chr(c))
        except ValueError:
            return None
    xd = g_list(['%d%%N' % c for c in xs if chr(c).isdigit()])
    xdec = g_list(['(%d%%N, %d%%N)' % (c, dv(c)) for c in xs if dv(c) is not None and chr(c).isdecimal()])
    xa = g_list(['%d%%N' % c for c in xs if chr(c).isalpha()])
    xl = g_list(['%d%%N' % c for c in xs if chr(c).islower()])
    return xd, xdec, xa, xl


def header(texts, fuel=400):
    xd, xdec, xa, xl = classes(texts)
    return '''From Coq Require Import List NArith ZArith Arith Bool.
From PG Require Import Common.Strs Ring.Peg Ring.PegCorr Ring.Peg_cert Ring.Reader Graph.Mol Graph.Match Gen.RingGrammar Gen.Elements.
Import ListNotations.
(* fuel = the bound of theorem C09_parse_total: the model never runs out of fuel *)
Definition P (t : str) := parse_text %s %s %s enhanced_grammar_rules enhanced_grammar_root (fuel_bound t) t.
Definition R (t : str) := read_text %s %s %s %s enhanced_grammar_rules enhanced_grammar_root elements (fuel_bound t) t.
''' % (xd, xdec, xa, xd, xdec, xa, xl)


def tree_lit(t):
    if 'n' in t:
        return '(TNode %s %s)' % (g_str(t['n']), g_list([tree_lit(k) for k in t['k']]))
    if 'i' in t:
        return '(TInt %d%%N)' % t['i']
    return '(TStr %s)' % g_str(t['s'])


def parse_out_lit(r):
    if 'tree' in r:
        return '(OTree %s)' % tree_lit(r['tree'])
    if r['exc'] == 'RINGSyntaxError':
        return '(OSyntax %d %d)' % (r['line'], r['col'])
    if r['exc'] == 'Timeout':
        return 'OHang'
    k = {'ValueError': 'IValueError', 'KeyError': 'IKeyError', 'TypeError': 'ITypeError',
         'RecursionError': 'IRecursion'}.get(r['exc'], 'ITypeError')
    return '(OInternal %s)' % k


def read_class(r):
    """0 query, 1 syntax, 2 reader, 3 not-implemented, 4 internal, 5 hang"""
    if 'ok' in r:
        return 0, 0, 0
    e = r['exc']
    if e == 'RINGSyntaxError':
        return 1, r['line'], r['col']
    if e == 'RINGReaderError':
        return 2, 0, 0
    if e == 'NotImplementedError':
        return 3, 0, 0
    if e == 'Timeout':
        return 5, 0, 0
    return 4, 0, 0


def graph_lit(g):
    atoms = g_list(['{| a_z := %d%%N; a_chg := (%d)%%Z; a_rad := %d%%N; a_arom := %s |}' % (a[0], a[1], a[2], vlib.g_bool(a[3]))
                    for a in g['atoms']])
    bonds = g_list(['{| b_u := %d%%nat; b_v := %d%%nat; b_t := %s; b_st := %s; b_sa := %s |}'
                    % (b[0], b[1], BT.get(b[2], 'BtOther'), ST.get(b[4], 'StOther'), g_list(['%d%%nat' % x for x in b[5]]))
                    for b in g['bonds']])
    rings = g_list([g_list(['%d%%nat' % x for x in r]) for r in g['rings']])
    return '{| atoms := %s; bonds := %s; rings := %s |}' % (atoms, bonds, rings)


def matches_lit(ms):
    return g_list([g_list(['%d%%nat' % x for x in m]) for m in ms])


def run_shards(ctx, name, shards, timeout=None):
    """returns list of (shard index, mismatch indices) ; records broken shards.  A shard is given a few minutes in the quick tier
    (a grammar or model that has become exponential must end as a reported failure, not as a check that never returns)"""
    if timeout is None or ctx.tier == 'quick':
        timeout = 420 if ctx.tier == 'quick' else 1500
    out = []
    for k, (ok, o) in enumerate(vlib.run_cases_sharded(name, shards, timeout=timeout)):
        val = vlib.coq_eval_value(o) if ok else None
        if val is None:
            ctx.broken.append('correspondence %s shard %d did not evaluate: %s' % (name, k, o[-400:]))
            continue
        out.append((k, vlib.parse_nat_list(val)))
    return out
