"""Child for C02/C03/C04/C15: decompositions by the implementation, and the
prepared graph computed by the harness itself with public RDKit calls."""
import signal
from common import read_payload, write_result, quiet, exc_name, silence_rdkit

silence_rdkit()
from rdkit import Chem  # noqa: E402
from pgradd.GroupAdd.Library import GroupLibrary  # noqa: E402
from pgradd.GroupAdd.Scheme import GroupAdditivityScheme  # noqa: E402
import pgradd.ThermoChem  # noqa: E402,F401
import os  # noqa: E402

_sch = {}


def get_scheme(name):
    if name not in _sch:
        _sch[name] = GroupAdditivityScheme.Load(name)
    return _sch[name]


def prepared_graph(smiles):
    """specification side: SMILES -> sanitised, hydrogens added, kekulised, unspecified bonds as ZERO"""
    mol = Chem.MolFromSmiles(smiles)
    if mol is None:
        return None
    for op in ('SANITIZE_ADJUSTHS', 'SANITIZE_CLEANUP', 'SANITIZE_CLEANUPCHIRALITY', 'SANITIZE_KEKULIZE', 'SANITIZE_FINDRADICALS',
               'SANITIZE_PROPERTIES', 'SANITIZE_SETCONJUGATION', 'SANITIZE_SETHYBRIDIZATION', 'SANITIZE_SYMMRINGS'):
        Chem.SanitizeMol(mol, sanitizeOps=getattr(Chem.rdmolops.SanitizeFlags, op))
    mol = Chem.AddHs(mol)
    Chem.Kekulize(mol)
    for b in mol.GetBonds():
        if str(b.GetBondType()) == 'UNSPECIFIED':
            b.SetBondType(Chem.BondType.ZERO)
    sssr = [list(r) for r in Chem.GetSymmSSSR(mol)]
    atoms = [[a.GetAtomicNum(), a.GetFormalCharge(), a.GetNumRadicalElectrons(), bool(a.GetIsAromatic()), bool(a.IsInRing())]
             for a in mol.GetAtoms()]
    bonds = [[b.GetBeginAtomIdx(), b.GetEndAtomIdx(), str(b.GetBondType()), bool(b.IsInRing()), str(b.GetStereo()), list(b.GetStereoAtoms())]
             for b in mol.GetBonds()]
    return {'atoms': atoms, 'bonds': bonds, 'rings': [list(r) for r in mol.GetRingInfo().AtomRings()], 'sssr': sssr,
            'canon': Chem.MolToSmiles(Chem.MolFromSmiles(smiles))}


def decomp(sch, x):
    try:
        d = sch.GetDescriptors(x)
        return {'d': sorted([str(k), float(v)] for k, v in d.items())}
    except Exception as e:
        return {'exc': exc_name(e)}


def spellings(smi, n, seed):
    import random
    import itertools
    rng = random.Random(seed)
    mol = Chem.MolFromSmiles(smi)
    out = [('canonical', Chem.MolToSmiles(mol))]
    nat = mol.GetNumAtoms()
    perms = []
    if nat <= 6 and nat > 1:
        perms = list(itertools.permutations(range(nat)))
        rng.shuffle(perms)
        perms = perms[:max(n, 24)]
    else:
        for _ in range(n):
            p = list(range(nat))
            rng.shuffle(p)
            perms.append(tuple(p))
    for p in perms:
        m2 = Chem.RenumberAtoms(mol, list(p))
        out.append(('renumbered', Chem.MolToSmiles(m2, canonical=False)))
    for _ in range(max(2, n // 3)):
        out.append(('random', Chem.MolToSmiles(mol, doRandom=True)))
    try:
        k = Chem.Mol(mol)
        Chem.Kekulize(k, clearAromaticFlags=True)
        out.append(('kekule', Chem.MolToSmiles(k, kekuleSmiles=True)))
    except Exception:
        pass
    out.append(('explicitH', Chem.MolToSmiles(Chem.AddHs(mol), allHsExplicit=True)))
    out.append(('explicitH-atoms', Chem.MolToSmiles(Chem.AddHs(mol))))
    return out


def job_spell(j):
    sch = get_scheme(j['lib'])
    res = []
    for smi in j['smiles']:
        if Chem.MolFromSmiles(smi) is None:
            res.append({'bad_smiles': True})
            continue
        sp = spellings(smi, j.get('n', 8), j.get('seed', 0))
        outs = [[kind, s, decomp(sch, s)] for kind, s in sp if Chem.MolFromSmiles(s) is not None]
        outs.append(['mol-object', smi, decomp(sch, Chem.MolFromSmiles(smi))])
        # molecule objects with explicit hydrogens, handed over TWICE (and to another scheme in between): the caller's object is
        # an input, not a scratch pad
        mh = Chem.AddHs(Chem.MolFromSmiles(smi))
        sig0 = Chem.MolToSmiles(mh) + '|' + ','.join(sorted(a.GetPropsAsDict().keys().__str__() for a in mh.GetAtoms()))
        outs.append(['mol-object-H', smi, decomp(sch, mh)])
        outs.append(['mol-object-H-again', smi, decomp(sch, mh)])
        sig1 = Chem.MolToSmiles(mh) + '|' + ','.join(sorted(a.GetPropsAsDict().keys().__str__() for a in mh.GetAtoms()))
        if sig0 != sig1:
            outs.append(['mol-object-modified', smi, {'exc': 'CallerObjectModified'}])
        # ... a molecule object whose hydrogens are NOT the last atoms (renumbered after AddHs; parsed with removeHs=False), and one
        # whose ring bookkeeping was refreshed by the caller with the fast ring finder
        try:
            import random as _r
            rr_ = _r.Random(j.get('seed', 0) + len(smi))
            perm_ = list(range(mh.GetNumAtoms()))
            rr_.shuffle(perm_)
            outs.append(['mol-object-H-shuffled', smi, decomp(sch, Chem.RenumberAtoms(Chem.AddHs(Chem.MolFromSmiles(smi)), perm_))])
            ps_ = Chem.SmilesParserParams()
            ps_.removeHs = False
            mx_ = Chem.MolFromSmiles(Chem.MolToSmiles(Chem.RenumberAtoms(Chem.AddHs(Chem.MolFromSmiles(smi)), perm_), canonical=False), ps_)
            if mx_ is not None:
                outs.append(['mol-object-keepHs', smi, decomp(sch, mx_)])
            mf_ = Chem.MolFromSmiles(smi)
            Chem.FastFindRings(mf_)
            outs.append(['mol-object-fastrings', smi, decomp(sch, mf_)])
        except Exception as e_:
            outs.append(['mol-object-H-shuffled', smi, {'exc': 'Harness:' + exc_name(e_)}])
        # ... and molecule objects the caller keeps in Kekule form (aromatic flags cleared), with and without explicit hydrogens
        try:
            mk = Chem.MolFromSmiles(smi)
            Chem.Kekulize(mk, clearAromaticFlags=True)
            outs.append(['mol-object-kekule', smi, decomp(sch, mk)])
            mkh = Chem.AddHs(mk)
            outs.append(['mol-object-kekule-H', smi, decomp(sch, mkh)])
        except Exception:
            pass
        m0 = Chem.MolFromSmiles(smi)
        six = [set(r) for r in m0.GetRingInfo().AtomRings() if len(r) == 6 and all(m0.GetAtomWithIdx(a).GetSymbol() == 'C' for a in r)]
        fused = any(len(a & b) >= 2 for i, a in enumerate(six) for b in six[i + 1:])
        res.append({'outs': outs, 'fused6': fused})
    return {'results': res}


def job(j):
    if j.get('op') == 'spell':
        return job_spell(j)
    if j.get('op') == 'reload':
        return job_reload(j)
    sch = get_scheme(j['lib'])
    out = []
    for smi in j['smiles']:
        r = {}
        if Chem.MolFromSmiles(smi) is None:
            out.append({'bad_smiles': True})
            continue
        if j.get('prime'):
            # another scheme object is asked for the same string first: the answer of `sch` must not depend on that
            decomp(get_scheme(j['prime']), smi)
        r['impl'] = decomp(sch, smi)
        if j.get('graph'):
            r['graph'] = prepared_graph(smi)
        if j.get('as_mol'):
            r['impl_mol'] = decomp(sch, Chem.MolFromSmiles(smi))
        if j.get('combine') and '.' in smi:
            # the mixture as ONE molecule object assembled by hand from its components (Chem.CombineMols)
            parts = [Chem.MolFromSmiles(p_) for p_ in smi.split('.')]
            if all(p_ is not None for p_ in parts):
                m_ = parts[0]
                for p_ in parts[1:]:
                    m_ = Chem.CombineMols(m_, p_)
                r['impl_combine'] = decomp(sch, m_)
        if j.get('mol_twice'):
            # ONE molecule object that has all its hydrogens already, handed in twice (and to another scheme in between):
            # decomposing must not write into the caller's object
            m = Chem.AddHs(Chem.MolFromSmiles(smi))
            r['molH'] = [decomp(sch, m)]
            if j.get('prime'):
                decomp(get_scheme(j['prime']), m)
            r['molH'].append(decomp(sch, m))
        out.append(r)
    return {'results': out}


def job_reload(j):
    """scheme files written one after the other to the SAME path, each loaded and used right away: what is loaded is what the file says now"""
    out = []
    for text in j['texts']:
        with open(j['path'], 'w') as f:
            f.write(text)
        try:
            sch = GroupAdditivityScheme.Load(j['path'])
            out.append([decomp(sch, smi) for smi in j['smiles']])
        except Exception as e:
            out.append({'exc': exc_name(e)})
    return {'reload': out}


class Timeout(Exception):
    pass


def _alarm(*a):
    raise Timeout()


def main():
    p = read_payload()
    out = []
    signal.signal(signal.SIGALRM, _alarm)
    with quiet():
        for j in p['cases']:
            signal.alarm(int(j.get('timeout', 120)))
            try:
                out.append(job(j))
            except Timeout:
                out.append({'exc': 'Timeout'})
            except Exception as e:
                out.append({'job_exc': exc_name(e), 'msg': str(e)[:300]})
            finally:
                signal.alarm(0)
    write_result({'results': out})


main()
