"""Child for C17: GenerateRxnNet and an independent breadth-first closure."""
import signal
from common import read_payload, write_result, quiet, exc_name, silence_rdkit

silence_rdkit()
from rdkit import Chem  # noqa: E402
from rdkit.Chem.AllChem import ReactionFromSmarts  # noqa: E402
from rdkit.Chem.rdchem import GetPeriodicTable  # noqa: E402
from pgradd.RDkitWrapper.GenRxnNet import GenerateRxnNet, _sanitize_except_aromatization  # noqa: E402
from pgradd.RINGParser import Read  # noqa: E402


def canon(mol):
    """species identity: canonical SMILES of the hydrogen-explicit graph with radical counts"""
    m = Chem.AddHs(Chem.Mol(mol))
    return Chem.MolToSmiles(m, allHsExplicit=True)


def prep(smi):
    m = Chem.MolFromSmiles(smi, sanitize=False)
    _sanitize_except_aromatization(m)
    m = Chem.AddHs(m)
    _sanitize_except_aromatization(m)
    for a in m.GetAtoms():
        a.SetNoImplicit(True)
    Chem.AssignRadicals(m)
    return m


def mk_rule(r):
    try:
        return Read(r)
    except Exception:
        return ReactionFromSmarts(r)


def products_of(rule, mol):
    """what one rule gives on one species: valence-filtered products, in order, de-duplicated within the batch by species identity"""
    pt = GetPeriodicTable()
    out = []
    for ps in rule.RunReactants((mol,)):
        for p in ps:
            for a in p.GetAtoms():
                a.SetNoImplicit(True)
                a.UpdatePropertyCache(strict=False)
            Chem.AssignRadicals(p)
            if any(pt.GetDefaultValence(a.GetAtomicNum()) < a.GetTotalValence() for a in p.GetAtoms()):
                continue
            out.append(p)
    seen, res = set(), []
    for p in out:
        c = canon(p)
        if c not in seen:
            seen.add(c)
            res.append((c, p))
    return res


def job(j):
    res = {}
    # networks generated earlier IN THIS PROCESS with the same rule texts (their results are not looked at)
    for w in j.get('warm', []):
        try:
            GenerateRxnNet(list(w), list(j['rules']))
        except Exception:
            pass
    try:
        out = GenerateRxnNet(list(j['seeds']), list(j['rules']))
        res['impl'] = [canon(m) for m in out]
    except Exception as e:
        res['impl_exc'] = exc_name(e)
        res['msg'] = str(e)[:200]
    # independent closure
    try:
        rules = [mk_rule(r) for r in j['rules']]
        if any(r.GetNumReactantTemplates() != 1 for r in rules):
            return dict(res, closure_exc='not-unimolecular')
        ids, mols, expand = {}, [], {}
        queue = []
        for s in j['seeds']:
            m = prep(s)
            c = canon(m)
            if c not in ids:
                ids[c] = len(mols)
                mols.append(m)
                queue.append(ids[c])
        seeds = list(queue)
        while queue and len(mols) < j.get('cap', 400):
            i = queue.pop(0)
            ex = []
            for r in rules:
                for c, p in products_of(r, mols[i]):
                    if c not in ids:
                        ids[c] = len(mols)
                        mols.append(p)
                        queue.append(ids[c])
                    ex.append(ids[c])
            expand[i] = ex
        res['closure'] = {'species': [canon(m) for m in mols], 'seeds': seeds, 'expand': [expand.get(i) for i in range(len(mols))],
                          'complete': not queue}
    except Exception as e:
        res['closure_exc'] = exc_name(e)
    return res


class Timeout(Exception):
    pass


def _alarm(*a):
    raise Timeout()


def main():
    p = read_payload()
    out = []
    signal.signal(signal.SIGALRM, _alarm)
    with quiet():
        for j in p['cases']:
            signal.alarm(int(j.get('timeout', 120)))
            try:
                out.append(job(j))
            except Timeout:
                out.append({'impl_exc': 'Timeout'})
            except Exception as e:
                out.append({'job_exc': exc_name(e), 'msg': str(e)[:200]})
            finally:
                signal.alarm(0)
    write_result({'results': out})


main()
