"""Child for C14/C15: loading the shipped libraries in the three ways, fingerprints, exhaustive evaluation, uncertainty blocks, data-dir cache."""
import hashlib
import json
import math
import os
import warnings
from common import read_payload, write_result, quiet, exc_name, silence_rdkit

silence_rdkit()
import numpy as np  # noqa: E402


from libs_fp import fingerprint  # noqa: E402


def job(j):
    op = j['op']
    if op == 'datadir':
        # a history of calls under changing environments, in THIS fresh process
        from pgradd.GroupAdd import DataDir
        out = []
        for e in j['envs']:
            if e is None:
                os.environ.pop('pgradd_DATA_DIR', None)
            else:
                os.environ['pgradd_DATA_DIR'] = e
            try:
                out.append(DataDir.get_data_dir())
            except Exception as ex:
                out.append({'exc': exc_name(ex)})
        return {'answers': out, 'bundled': os.path.join(os.path.dirname(os.path.dirname(DataDir.__file__)), 'data')}
    import pgradd.ThermoChem  # noqa: F401
    from pgradd.GroupAdd.Library import GroupLibrary
    if op == 'load':
        if j.get('env'):
            os.environ['pgradd_DATA_DIR'] = j['env']
        if j.get('cwd'):
            os.chdir(j['cwd'])          # explicit paths may be relative to the working directory
        with warnings.catch_warnings(record=True):
            warnings.simplefilter('always')
            lib = GroupLibrary.Load(j['spec'])
        if j.get('after_update'):
            # this process has loaded the library before and merged ANOTHER one into that object, overwriting: a library loaded
            # afterwards is what the files say, not what some other object was turned into
            try:
                lib.Update(GroupLibrary.Load(j['after_update']), overwrite=True)
            except Exception:
                pass
            with warnings.catch_warnings(record=True):
                warnings.simplefilter('always')
                lib = GroupLibrary.Load(j['spec'])
        fp, n = fingerprint(lib)
        return {'fp': fp, 'n': n, 'path': lib.path}
    if op == 'audit':
        from pgradd.RINGParser import Read
        import yaml
        with warnings.catch_warnings(record=True):
            warnings.simplefilter('always')
            lib = GroupLibrary.Load(j['spec'])
        bad = []
        nev = 0
        for k in lib:
            ps = lib[k]
            if 'thermochem' not in ps:
                continue
            c = ps['thermochem']
            Ts = sorted(float(t) for t in (c.ND_Cp_data or {}))
            r = c.get_range()
            pts = set(Ts + [float(c.T_ref)])
            if r is not None:
                pts |= {float(r[0]), float(r[1]), (float(r[0]) + float(r[1])) / 2}
                pts = {t for t in pts if r[0] <= t <= r[1]}
            for T in sorted(pts):
                for name, has in (('get_CpoR', bool(c.ND_Cp_data)), ('get_HoRT', c.ND_H_ref is not None), ('get_SoR', c.ND_S_ref is not None),
                                  ('get_GoRT', c.ND_H_ref is not None and c.ND_S_ref is not None)):
                    if not has:
                        continue
                    nev += 1
                    try:
                        with warnings.catch_warnings(record=True):
                            warnings.simplefilter('always')
                            v = getattr(c, name)(T)
                        if not isinstance(v, (float, int, np.floating)) or not math.isfinite(float(v)):
                            bad.append([str(k), name, T, 'not a finite plain number: %r' % (v,)])
                    except Exception as e:
                        bad.append([str(k), name, T, exc_name(e)])
        res = {'bad_eval': bad[:20], 'n_eval': nev, 'n_groups': len(lib)}
        uq = lib.uq_contents
        if uq:
            M = np.asarray(uq['mat'], dtype=float)
            basis = list(uq['descriptors'])
            missing = [str(d) for d in basis if 'thermochem' not in lib[d]]
            res['uq'] = {'n': len(basis), 'shape': list(M.shape), 'missing': missing,
                         'symmetric': bool(M.ndim == 2 and M.shape[0] == M.shape[1] and np.allclose(M, M.T, rtol=0, atol=1e-12)),
                         'min_eig': float(np.linalg.eigvalsh((M + M.T) / 2).min()) if M.ndim == 2 and M.shape[0] == M.shape[1] else None,
                         'dup_basis': len(set(map(str, basis))) != len(basis),
                         # the matrix exactly as the library object holds it (for the tie with Gen/UqMats.v)
                         'mat_hex': [[float(v).hex() for v in row] for row in M.tolist()] if M.ndim == 2 else None}
        base = os.path.dirname(lib.path)
        # what the data files themselves give for every entry (plain YAML, not the library's loader): a reference value that is
        # written - zero included - and a table that is written must be there after loading
        from pgradd.GroupAdd.Group import Group

        def raw_presence(path, seen, acc):
            with open(path) as f:
                d = yaml.load(f, Loader=yaml.SafeLoader) or {}
            for sect in ('groups', 'other_descriptors'):
                for name, ps in (d.get(sect) or {}).items():
                    tc = (ps or {}).get('thermochem')
                    if tc is None:
                        continue
                    key = str(Group.parse(lib.scheme, name)) if sect == 'groups' else str(name)
                    e = acc.setdefault(key, [False, False, False])
                    e[0] = e[0] or tc.get('H_ref') is not None or tc.get('ND_H_ref') is not None
                    e[1] = e[1] or tc.get('S_ref') is not None or tc.get('ND_S_ref') is not None
                    e[2] = e[2] or bool(tc.get('Cp_data') or tc.get('ND_Cp_data'))
            for inc in d.get('include') or []:
                p2 = os.path.join(os.path.dirname(path), inc)
                if p2 not in seen:
                    seen.add(p2)
                    raw_presence(p2, seen, acc)
            return acc
        want = raw_presence(lib.path, {lib.path}, {})
        got = {}
        for k in lib:
            if 'thermochem' in lib[k]:
                c = lib[k]['thermochem']
                got[str(k)] = [c.ND_H_ref is not None, c.ND_S_ref is not None, bool(c.ND_Cp_data)]
        res['presence_diff'] = sorted([k, want.get(k), got.get(k)] for k in set(want) | set(got) if want.get(k) != got.get(k))[:20]
        res['n_presence'] = len(want)
        with open(os.path.join(base, 'scheme.yaml')) as f:
            sd = yaml.load(f, Loader=yaml.SafeLoader)
        unread = []
        for p in sd['patterns'] + sd.get('other_descriptors', []):
            try:
                Read(p['connectivity'])
            except Exception as e:
                unread.append([p.get('center_name') or p.get('name'), exc_name(e)])
        res['unreadable'] = unread
        rm = sd.get('remaps') or {}
        res['remap_chains'] = sorted(t[1] for v in rm.values() for t in v if t[1] in rm)
        res['remap_bad'] = sorted(k for k, v in rm.items() if not v or any(len(t) != 2 or not isinstance(t[0], (int, float)) or t[0] == 0 for t in v))
        return res
    return {'exc': 'BadJob'}


def main():
    p = read_payload()
    out = []
    with quiet():
        for j in p['cases']:
            try:
                out.append(job(j))
            except Exception as e:
                import traceback
                out.append({'exc': exc_name(e), 'msg': str(e)[:300], 'tb': traceback.format_exc()[-500:]})
    write_result({'results': out})


main()
