"""Helpers for the child processes that exercise the implementation."""
import io
import json
import os
import sys
import contextlib
import warnings


def read_payload():
    return json.load(sys.stdin)


def write_result(res):
    with open(os.environ['VERIF_OUT'], 'w') as f:
        json.dump(res, f, default=str)


@contextlib.contextmanager
def quiet():
    """The repository prints from several functions; keep stdout clean."""
    old = sys.stdout
    sys.stdout = io.StringIO()
    try:
        yield
    finally:
        sys.stdout = old


def silence_rdkit():
    try:
        from rdkit import RDLogger
        RDLogger.DisableLog('rdApp.*')
    except Exception:
        pass


def exc_name(e):
    return type(e).__name__
