"""C19 child: Group construction, parsing, equality, hashing, lookups."""
from common import read_payload, write_result, quiet, exc_name
from pgradd.GroupAdd.Group import Group
from pgradd.GroupAdd.Library import GroupLibrary


class _Scheme(object):
    """stand-ins for scheme objects: identity of a group must not depend on them"""


SCHEMES = [None, _Scheme(), _Scheme()]


def mk(spec, k=0):
    sch = SCHEMES[k % len(SCHEMES)]
    if spec['op'] == 'ctor':
        # the peripheral names may be given as any iterable (docstring): vary the container with the case
        ps = list(spec['ps'])
        how = (k + len(ps) + len(spec['c'])) % 5
        arg = [ps, tuple(ps), iter(ps), (x for x in ps), map(str, ps)][how]
        return Group(sch, spec['c'], arg)
    return Group.parse(sch, spec['text'])


def outcome(spec):
    try:
        g = mk(spec)
        return {'ok': g.name}
    except Exception as e:
        return {'exc': exc_name(e)}


def klass(members):
    """members: specs that must all denote one group."""
    gs = [mk(m, k) for k, m in enumerate(members)]
    # the same groups after a pickle round trip / a copy: identity is the centre and the multiset, not the object or the
    # string object holding its name (batch 12: interned names compared with `is`)
    import copy
    import pickle
    for g in list(gs[:2]) + [gs[-1]]:
        for f_ in (lambda x: pickle.loads(pickle.dumps(x)), copy.deepcopy, copy.copy):
            try:
                gs.append(f_(g))
            except TypeError:
                pass            # (a group keeps the iterable it was given; a generator cannot be pickled or deep-copied)
    g0 = gs[0]
    d = {g0: 'v'}
    lib = GroupLibrary(None, {g0: {'thermochem': 'v'}})
    r = {'names': [g.name for g in gs],
         'eq': [bool(g == g0) and bool(g0 == g) and not bool(g != g0) for g in gs],
         'hash': [hash(g) == hash(g0) for g in gs],
         'dict': [d.get(g) == 'v' for g in gs],
         'dict_str': d.get(g0.name) == 'v' and {g0.name: 1}.get(g0) == 1,
         'lib': [(g in lib) and lib[g] == {'thermochem': 'v'} for g in gs],
         'lib_str': (g0.name in lib) and lib[g0.name] == {'thermochem': 'v'},
         'str_eq': bool(g0 == g0.name) and bool(g0.name == g0) and str(g0) == g0.name
         and not bool(g0 != g0.name) and not bool(g0.name != g0) and bool(g0 != g0.name + 'x') and not bool(gs[-1] != g0.name),
         'reparse': bool(Group.parse(None, g0.name) == g0)
         and Group.parse(None, g0.name).name == g0.name,
         'csg': g0.csg, 'psgs': sorted(gs[-1].psgs)}
    return r


def cross(a, b):
    ga, gb = mk(a, 0), mk(b, 1)
    return {'eq': bool(ga == gb) or bool(gb == ga) or not bool(ga != gb),
            'dict': {ga: 1}.get(gb) is not None,
            'streq': bool(ga == gb.name)}


def main():
    p = read_payload()
    out = []
    with quiet():
        for c in p['cases']:
            try:
                if c['kind'] == 'outcome':
                    out.append(outcome(c['spec']))
                elif c['kind'] == 'class':
                    out.append(klass(c['members']))
                elif c['kind'] == 'cross':
                    out.append(cross(c['a'], c['b']))
            except Exception as e:
                out.append({'exc': exc_name(e), 'msg': str(e)[:200]})
    write_result({'results': out})


main()
