"""Child for C15: executes a history of operations in ONE process."""
import warnings
from common import read_payload, write_result, quiet, exc_name, silence_rdkit

silence_rdkit()
import numpy as np  # noqa: E402
from pgradd.GroupAdd.Library import GroupLibrary  # noqa: E402
import pgradd.ThermoChem  # noqa: E402,F401
from libs_fp import fingerprint  # noqa: E402

GET = {'cp': 'get_CpoR', 'h': 'get_HoRT', 's': 'get_SoR', 'g': 'get_GoRT',
       'cp_se': 'get_CpoR_SE', 'h_se': 'get_HoRT_SE', 's_se': 'get_SoR_SE'}


def main():
    p = read_payload()
    out = []
    libs, dec, ests, mols = {}, {}, {}, {}
    with quiet():
        for o in p['cases'][0]['ops']:
            r = {}
            try:
                with warnings.catch_warnings(record=True):
                    warnings.simplefilter('always')
                    if o['op'] == 'load':
                        libs[o['obj']] = GroupLibrary.Load(o['lib'])
                        r['fp'] = fingerprint(libs[o['obj']])[0]
                    elif o['op'] == 'new':
                        # a library put together by hand: an empty one carrying the scheme of a shipped library
                        from pgradd.GroupAdd.Scheme import GroupAdditivityScheme
                        libs[o['obj']] = GroupLibrary(GroupAdditivityScheme.Load(o['lib']))
                        r['fp'] = fingerprint(libs[o['obj']])[0]
                    elif o['op'] == 'cd_load':
                        # a library given by a RELATIVE path, loaded after changing into a project directory
                        import os
                        os.chdir(o['cwd'])
                        libs[o['obj']] = GroupLibrary.Load(o['lib'])
                        r['fp'] = fingerprint(libs[o['obj']])[0]
                    elif o['op'] == 'share':
                        # a second library object carrying the SAME scheme object as another one (hand-built from it)
                        libs[o['obj']] = GroupLibrary(libs[o['of']].scheme)
                        libs[o['obj']].Update(libs[o['of']])
                        r['fp'] = fingerprint(libs[o['obj']])[0]
                    elif o['op'] == 'tagload':
                        # a user-registered property-set type, registered now (once per process), then a library that carries such data
                        from pgradd import yaml_io
                        if not getattr(GroupLibrary, '_verif_tag', False):
                            class Tag(object):
                                def __init__(self, value):
                                    self.value = value

                                @classmethod
                                def yaml_construct(cls, params, context):
                                    return cls(params['value'])

                                def copy(self):
                                    return Tag(self.value)

                            class TagEstimate(object):
                                def __init__(self, lib, groups):
                                    self.total = sum(groups[g] * lib[g]['tag'].value for g in groups)
                            yaml_io.register_class('TagGroup', yaml_io.parse('value:\n  type: float\n'), Tag)
                            GroupLibrary.register_property_set_type('tag', 'TagGroup', TagEstimate)
                            GroupLibrary._verif_tag = True
                        libs[o['obj']] = GroupLibrary.Load(o['path'])
                        L_ = libs[o['obj']]
                        r['sets'] = sorted([str(k), sorted(L_[k])] for k in L_)
                        r['tag_total'] = float(L_.Estimate({k: 2 for k in L_}, 'tag').total)
                        r['fp'] = fingerprint(L_)[0]
                    elif o['op'] == 'decompose':
                        d = libs[o['obj']].GetDescriptors(o['smiles'])
                        dec[(o['obj'], o['smiles'])] = d
                        r['d'] = sorted([str(k), float(v)] for k, v in d.items())
                    elif o['op'] == 'eval':
                        est = libs[o['obj']].Estimate(dec[(o['obj'], o['smiles'])], 'thermochem')
                        kw = {'S_elements': True} if o.get('elements') else {}
                        fn = getattr(est, GET[o['prop']])
                        v = fn(o['T'], **kw) if o['prop'] in ('s', 'g') else fn(o['T'])
                        r['v'] = float(v)
                    elif o['op'] == 'decompose_mol':
                        from rdkit import Chem
                        if o['mid'] not in mols:
                            mols[o['mid']] = Chem.AddHs(Chem.MolFromSmiles(o['smiles']))
                        d = libs[o['obj']].GetDescriptors(mols[o['mid']])
                        r['d'] = sorted([str(k), float(v)] for k, v in d.items())
                    elif o['op'] == 'estimate':
                        ests[(o['obj'], o['eid'])] = libs[o['obj']].Estimate(dec[(o['obj'], o['smiles'])], 'thermochem')
                    elif o['op'] == 'evalest':
                        est = ests[(o['obj'], o['eid'])]
                        kw = {'S_elements': True} if o.get('elements') else {}
                        fn = getattr(est, GET[o['prop']])
                        v = fn(o['T'], **kw) if o['prop'] in ('s', 'g') else fn(o['T'])
                        r['v'] = float(v)
                    elif o['op'] == 'fingerprint':
                        r['fp'] = fingerprint(libs[o['obj']])[0]
                    elif o['op'] == 'merge':
                        libs[o['obj']].Update(libs[o['src']], overwrite=True)
                        r['fp'] = fingerprint(libs[o['obj']])[0]
            except Exception as e:
                r['exc'] = exc_name(e)
            out.append(r)
    write_result({'results': [{'outs': out}]})


main()
