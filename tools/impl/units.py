"""Child for the Units properties (C10, C11)."""
import operator
import signal
from common import read_payload, write_result, quiet, exc_name

import numpy as np
from pgradd.Units import (eval_qty, Quantity, with_units, in_units, to_SI_from, from_SI_to)
from pgradd.Units.qty import ArrayQuantity, GenericQuantity


def enc(x):
    if isinstance(x, Quantity):
        return {'kind': 'qty', 'v': float(x.value), 'exps': [float(e) for e in x.units.exps],
                'vtype': type(x.value).__name__}
    if isinstance(x, ArrayQuantity):
        return {'kind': 'arrqty', 'v': [float(t) for t in np.asarray(x).ravel()],
                'exps': [float(e) for e in x._units.exps]}
    if isinstance(x, np.ndarray):
        return {'kind': 'arr', 'v': [float(t) if x.dtype != bool else bool(t) for t in x.ravel()]}
    if isinstance(x, (bool, np.bool_)):
        return {'kind': 'bool', 'v': bool(x)}
    if isinstance(x, (int, float, np.integer, np.floating)):
        return {'kind': 'num', 'v': float(x), 'vtype': type(x).__name__}
    if isinstance(x, complex):
        return {'kind': 'complex'}
    return {'kind': 'other', 'repr': repr(x)[:80], 'type': type(x).__name__}


def guard(fn):
    try:
        return enc(fn())
    except RecursionError:
        return {'exc': 'RecursionError'}
    except Exception as e:
        return {'exc': exc_name(e), 'msg': str(e)[:120]}


def operand(spec):
    """{'q': 'expr'} -> eval_qty ; {'n': number} ; {'arr': [..], 'u': 'expr'}"""
    if 'q' in spec:
        return eval_qty(spec['q'])
    if 'arr' in spec:
        if spec.get('u'):
            return np.array(spec['arr'], dtype=float) * eval_qty(spec['u'])
        return np.array(spec['arr'], dtype=float)
    return spec['n']


OPS = {'add': operator.add, 'sub': operator.sub, 'mul': operator.mul, 'div': operator.truediv,
       'lt': operator.lt, 'le': operator.le, 'gt': operator.gt, 'ge': operator.ge,
       'eq': operator.eq, 'ne': operator.ne, 'pow': operator.pow}


def job(j):
    op = j['op']
    if op == 'eval':
        return guard(lambda: eval_qty(j['text']))
    if op in OPS:
        return guard(lambda: OPS[op](operand(j['a']), operand(j['b'])))
    if op == 'neg':
        return guard(lambda: -operand(j['a']))
    if op == 'abs':
        return guard(lambda: abs(operand(j['a'])))
    if op == 'abs_reuse':
        # abs of an array quantity, then the SAME operand used again
        a = operand(j['a'])
        b = abs(a)
        return {'abs': enc(b), 'a_after': enc(a), 'sum': guard(lambda: a + b), 'lt': guard(lambda: a < b), 'diff': guard(lambda: b - a)}
    if op == 'in_units':
        return guard(lambda: operand(j['a']).in_units(j['u']))
    if op == 'in_units_fn':
        return guard(lambda: in_units(operand(j['a']), j['u']))
    if op == 'has_units':
        return guard(lambda: operand(j['a']).has_units(j['u']))
    if op == 'with_units':
        return guard(lambda: with_units(j['x'], j['u']))
    if op == 'to_SI_from':
        return guard(lambda: to_SI_from(j['x'], j['u']))
    if op == 'from_SI_to':
        return guard(lambda: from_SI_to(j['x'], j['u']))
    if op == 'helpers_seq':
        # the helper entry points asked for several unit strings one after the other IN THIS PROCESS, each compared by the
        # harness with what eval_qty gives for that very string
        out = []
        for u in j['units']:
            out.append({'u': u, 'to_si': guard(lambda: to_SI_from(2.5, u)), 'from_si': guard(lambda: from_SI_to(2.5, u)),
                        'with': guard(lambda: with_units(2.5, u)), 'eval': guard(lambda: eval_qty(u))})
        return {'seq': out}
    if op == 'roundtrip':
        return guard(lambda: with_units(with_units(j['x'], j['u']).in_units(j['w']), j['w']).in_units(j['u']))
    return {'exc': 'BadJob'}


class Timeout(Exception):
    pass


def _alarm(*a):
    raise Timeout()


def main():
    p = read_payload()
    out = []
    signal.signal(signal.SIGALRM, _alarm)
    with quiet():
        for j in p['cases']:
            signal.alarm(10)
            try:
                out.append(job(j))
            except Timeout:
                out.append({'exc': 'Timeout'})
            finally:
                signal.alarm(0)
    write_result({'results': out})


main()
