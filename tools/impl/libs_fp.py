import hashlib
import json
import numpy as np


def fingerprint(lib):
    items = []
    for k in lib:
        ps = lib[k]
        if 'thermochem' in ps:
            c = ps['thermochem']
            items.append([str(k), repr(c.ND_H_ref), repr(c.ND_S_ref), sorted((float(t), float(v)) for t, v in (c.ND_Cp_data or {}).items()),
                          None if c.get_range() is None else [float(x) for x in c.get_range()], float(c.T_ref)])
        else:
            items.append([str(k), None])
    items.sort(key=lambda x: x[0])
    uq = None
    if lib.uq_contents:
        uq = [list(map(str, lib.uq_contents['descriptors'])), np.asarray(lib.uq_contents['mat']).tolist(), lib.uq_contents['dof']]
    blob = json.dumps([items, uq], sort_keys=True, default=str)
    return hashlib.sha1(blob.encode()).hexdigest(), len(items)


