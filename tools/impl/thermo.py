"""Child process for the thermochemistry properties: runs jobs against the
implementation and reports outcomes (values, exception classes, warnings)."""
import math
import os
import sys
import warnings

from common import read_payload, write_result, quiet, exc_name, silence_rdkit

silence_rdkit()
import numpy as np  # noqa: E402
import pgradd  # noqa: E402,F401
from pgradd.GroupAdd.Library import GroupLibrary  # noqa: E402
from pgradd.GroupAdd.Group import Group  # noqa: E402
import pgradd.ThermoChem  # noqa: E402,F401
from pgradd.ThermoChem import ThermochemRawData, ThermochemIncomplete  # noqa: E402
from pgradd.Error import IncompleteDataWarning  # noqa: E402

_libs = {}


def get_lib(spec):
    if spec not in _libs:
        _libs[spec] = GroupLibrary.Load(spec)
    return _libs[spec]


def num(x):
    """plain-number test + exact transport"""
    if isinstance(x, (bool,)):
        return {'v': float(x), 'type': 'bool'}
    if isinstance(x, (int, float, np.floating, np.integer)):
        return {'v': float(x), 'type': type(x).__name__}
    if isinstance(x, np.ndarray) and x.shape == ():
        return {'v': float(x), 'type': 'ndarray0'}
    return {'v': None, 'type': type(x).__name__, 'repr': repr(x)[:120]}


def call(fn, *a, **kw):
    with warnings.catch_warnings(record=True) as ws:
        warnings.simplefilter('always')
        try:
            r = num(fn(*a, **kw))
        except Exception as e:
            r = {'exc': exc_name(e), 'msg': str(e)[:160]}
            if hasattr(e, 'groups'):
                r['groups'] = [str(g) for g in e.groups]
    r['w'] = any(issubclass(w.category, IncompleteDataWarning) for w in ws)
    return r


GETTERS = {'cp': 'get_CpoR', 'h': 'get_HoRT', 's': 'get_SoR', 'g': 'get_GoRT'}


def eval_props(obj, Ts, props):
    out = {}
    for p in props:
        out[p] = [call(getattr(obj, GETTERS[p]), T) for T in Ts]
    return out


def rng_of(obj):
    r = obj.get_range()
    return None if r is None else [float(r[0]), float(r[1])]


def job_estimate(j):
    lib = get_lib(j['lib'])
    if j.get('fresh'):
        lib = GroupLibrary.Load(j['lib'])
    if j.get('handbuilt'):
        # a library put together by hand: an empty GroupLibrary carrying the scheme, the data merged into it - after ANOTHER
        # hand-built library in this process received uncertainty data the same way
        from pgradd.GroupAdd.Scheme import GroupAdditivityScheme
        other = GroupLibrary(GroupAdditivityScheme.Load('BensonGA'))
        try:
            other.Update(GroupLibrary.Load(j['handbuilt']))
        except Exception:
            pass
        src = GroupLibrary.Load(j['lib'])
        lib = GroupLibrary(src.scheme)
        lib.Update(src)
    if j.get('pathless_after'):
        # two libraries WITHOUT a file path in one process (built from loaded contents), the other one asked for its standard errors first
        o_ = get_lib(j['pathless_after'])
        O_ = GroupLibrary(o_.scheme, o_.contents, o_.uq_contents)
        try:
            d0 = [d for d in o_.uq_contents['descriptors'] if 'thermochem' in o_[d]][0]
            e0 = O_.Estimate({d0: 1}, 'thermochem')
            for T_ in j['Ts']:
                for p_ in ('cp', 'h', 's'):
                    try:
                        getattr(e0, GETTERS[p_] + '_SE')(T_)
                    except Exception:
                        pass
        except Exception:
            pass
        L_ = get_lib(j['lib'])
        lib = GroupLibrary(L_.scheme, L_.contents, L_.uq_contents)
    if j.get('reordered_basis'):
        # a pathless library whose uncertainty basis is re-ordered IN PLACE (matrix rows and columns permuted with it: the same
        # quadratic form over the same names) after it was already asked for a standard error (batch 12: positions memoised per list object)
        import numpy as _np
        L_ = get_lib(j['lib'])
        uq_ = dict(L_.uq_contents)
        uq_['descriptors'] = list(L_.uq_contents['descriptors'])
        uq_['mat'] = _np.array(L_.uq_contents['mat'], dtype=float)
        lib = GroupLibrary(L_.scheme, L_.contents, uq_)
        try:
            d0 = [d for d in lib.uq_contents['descriptors'] if 'thermochem' in lib[d]][0]
            e0 = lib.Estimate({d0: 1}, 'thermochem')
            getattr(e0, GETTERS['h'] + '_SE')(j['Ts'][0])
        except Exception:
            pass
        lib.uq_contents['descriptors'].reverse()
        lib.uq_contents['mat'] = _np.ascontiguousarray(_np.asarray(lib.uq_contents['mat'])[::-1, ::-1])
    if j.get('copied_then_widened'):
        # the groups of this library were copied into another library (Update), and the COPIES were then widened by a further merge:
        # the library estimated from below is the untouched original
        lib = GroupLibrary.Load(j['lib'])
        other = GroupLibrary(lib.scheme)
        other.Update(lib)
        for k_ in list(lib):
            if 'thermochem' in lib[k_]:
                lib[k_]['thermochem'].copy()
        other.Update(GroupLibrary.Load(j['copied_then_widened']))
    if j.get('update_from'):
        # this library object has ALREADY estimated the very same mapping, and was then merged into from another library
        # (same data, wider ranges): the estimate made now reflects the library as it is now
        lib = GroupLibrary.Load(j['lib'])
        try:
            with warnings.catch_warnings(record=True):
                warnings.simplefilter('always')
                lib.Estimate({n: c for n, c in j.get('mapping', [])}, 'thermochem')
        except Exception:
            pass
        lib.Update(GroupLibrary.Load(j['update_from']))
    if j.get('predecomp'):
        try:
            lib.GetDescriptors(j['predecomp'])
        except Exception:
            pass
    mapping = {}
    if j.get('from_smiles'):
        try:
            from rdkit import Chem
            if Chem.MolFromSmiles(j['from_smiles']) is None:
                return {'decomp_exc': 'InvalidSmiles'}
            mapping = lib.GetDescriptors(j['from_smiles'])
        except Exception as e:
            return {'decomp_exc': exc_name(e)}
        j = dict(j, predecomp=j['from_smiles'])
    for name, count in j.get('mapping', []):
        key = Group.parse(lib.scheme, name) if j.get('as_group') else name
        mapping[key] = count
    res = {'mapping_used': [[str(k), float(v)] for k, v in mapping.items()]}
    try:
        with warnings.catch_warnings(record=True):
            warnings.simplefilter('always')
            est = lib.Estimate(mapping, 'thermochem')
    except Exception as e:
        res['exc'] = exc_name(e)
        res['msg'] = str(e)[:200]
        if hasattr(e, 'groups'):
            res['groups'] = [str(g) for g in e.groups]
        res['has'] = [('thermochem' in lib[k]) for k in mapping]
        return res
    if len(mapping) and abs(hash(str(sorted(map(str, mapping))))) % 2:
        # the caller goes on using ITS mapping object (rescales it in place): the estimate was made from the counts as they were
        pristine = dict(mapping)
        for k in list(mapping):
            mapping[k] = mapping[k] * 3 + 1
        mapping = pristine
    res['range'] = rng_of(est)
    res['vals'] = eval_props(est, j['Ts'], j['props'])
    # the same temperatures handed in as ONE integer-typed array (where they are whole numbers)
    intTs = [int(T) for T in j['Ts'] if float(T) == int(T)]
    if intTs:
        import numpy as _np
        arr = {}
        for p_ in j['props']:
            try:
                with warnings.catch_warnings(record=True):
                    warnings.simplefilter('always')
                    v_ = getattr(est, GETTERS[p_])(_np.array(intTs))
                arr[p_] = [float(x) for x in _np.asarray(v_, dtype=float).ravel()]
            except Exception as e_:
                arr[p_] = {'exc': exc_name(e_)}
        res['int_array'] = {'T': intTs, 'vals': arr}
    if j.get('then_decomp'):
        try:
            lib.GetDescriptors(j['then_decomp'])
        except Exception:
            pass
    # a second estimate object of the same mapping, asked first for the values relative to the elements and for array
    # temperatures, then for the plain values: what an estimate answers must not depend on what it was asked before
    if j.get('predecomp') and not j.get('no_again'):
        try:
            with warnings.catch_warnings(record=True):
                warnings.simplefilter('always')
                est2 = lib.Estimate(mapping, 'thermochem')
                for T in j['Ts']:
                    for fn in (est2.get_SoR, est2.get_GoRT):
                        try:
                            fn(T, S_elements=True)
                        except Exception:
                            pass
                res['vals_after_elements'] = eval_props(est2, j['Ts'], j['props'])
        except Exception as e:
            res['vals_after_elements'] = {'exc': exc_name(e)}
    parts = []
    for k in mapping:
        corr = lib[k]['thermochem']
        parts.append({'range': rng_of(corr),
                      'has_table': bool(corr.ND_Cp_data),
                      'vals': eval_props(corr, j['Ts'], j['props'])})
    res['parts'] = parts
    if j.get('dim'):
        d = {}
        for u in j['dim']['units']:
            du = {}
            for nm, args in (('get_H', (u,)), ('get_G', (u,)), ('get_S', (u + '/K',)),
                             ('get_Cp', (u + '/K',))):
                du[nm] = [call(getattr(est, nm), T, *args) for T in j['Ts']]
            if j['dim'].get('elements'):
                du['get_S_el'] = [call(est.get_S, T, u + '/K', S_elements=True) for T in j['Ts']]
                du['get_G_el'] = [call(est.get_G, T, u, S_elements=True) for T in j['Ts']]
            # the flag given explicitly as "not requested", in the spellings a caller may use
            import numpy as _np
            du['get_S_F'] = [call(est.get_S, T, u + '/K', S_elements=False) for T in j['Ts']]
            du['get_G_F'] = [call(est.get_G, T, u, S_elements=0) for T in j['Ts']]
            du['get_S_npF'] = [call(est.get_S, T, u + '/K', S_elements=_np.False_) for T in j['Ts']]
            d[u] = du
        res['dim'] = d
        res['s_F'] = [call(est.get_SoR, T, S_elements=False) for T in j['Ts']]
        res['g_F'] = [call(est.get_GoRT, T, S_elements=0) for T in j['Ts']]
        if j['dim'].get('elements'):
            res['s_el'] = [call(est.get_SoR, T, S_elements=True) for T in j['Ts']]
            res['g_el'] = [call(est.get_GoRT, T, S_elements=True) for T in j['Ts']]
    if j.get('dim'):
        from pmutt import constants as pc
        res['Rtab'] = {u + '/K': pc.R(u + '/K') for u in j['dim']['units']}
        if j['dim'].get('elements'):
            from rdkit import Chem
            m = Chem.AddHs(Chem.MolFromSmiles(j['predecomp']))
            res['atoms'] = [a.GetAtomicNum() for a in m.GetAtoms()]
            res['S_tab'] = {str(z): pc.S_elements[z] for z in sorted(set(res['atoms']))}
    if j.get('se'):
        res['se'] = {p: [call(getattr(est, GETTERS[p] + '_SE'), T) for T in j['Ts']]
                     for p in ('cp', 'h', 's')}
        rm = lib.uq_contents['RMSE'].thermochem
        res['rmse'] = eval_props(rm, j['Ts'], ('cp', 'h', 's'))
    return res


def job_libinfo(j):
    lib = get_lib(j['lib'])
    groups = []
    for k in lib:
        ps = lib[k]
        ent = {'name': str(k), 'has': 'thermochem' in ps, 'is_group': isinstance(k, Group)}
        if ent['has']:
            c = ps['thermochem']
            ent.update({'range': rng_of(c), 'T_ref': float(c.T_ref),
                        'H': None if c.ND_H_ref is None else num(c.ND_H_ref),
                        'S': None if c.ND_S_ref is None else num(c.ND_S_ref),
                        'Ts': sorted(float(t) for t in c.ND_Cp_data),
                        'Cps': [num(c.ND_Cp_data[t]) for t in sorted(c.ND_Cp_data)]})
        groups.append(ent)
    uq = None
    if lib.uq_contents:
        uq = {'descriptors': [str(d) for d in lib.uq_contents['descriptors']],
              'mat': np.asarray(lib.uq_contents['mat']).tolist(),
              'dof': lib.uq_contents['dof']}
    return {'groups': groups, 'uq': uq}


def mk_raw(j):
    kw = {}
    if j.get('T_ref') is not None:
        kw['T_ref'] = j['T_ref']
    if j.get('range') is not None:
        kw['range'] = tuple(j['range'])
    return ThermochemRawData(j['H'], j['S'], list(j['Ts']), list(j['Cps']), **kw)


def mk_inc(j):
    kw = {}
    if j.get('T_ref') is not None:
        kw['T_ref'] = j['T_ref']
    if j.get('range') is not None:
        kw['range'] = tuple(j['range'])
    data = dict(zip(j.get('Ts', []), j.get('Cps', [])))
    if j.get('via_yaml'):
        # the same correlation read from non-dimensional YAML text (what a data file holds) instead of being built in Python
        from pgradd import yaml_io
        from pgradd.ThermoChem import ThermochemGroup  # noqa: F401  (registers the tag)
        L = ['T_ref: %r K' % float(j['T_ref'] if j.get('T_ref') is not None else 298.15)]
        if j.get('H') is not None:
            L.append('ND_H_ref: %r' % float(j['H']))
        if j.get('S') is not None:
            L.append('ND_S_ref: %r' % float(j['S']))
        if data:
            L.append('ND_Cp_data:')
            L += ['  - [%r K, %r]' % (float(t), float(c)) for t, c in data.items()]
        if j.get('range') is not None:
            L.append('range: [%r K, %r K]' % (float(j['range'][0]), float(j['range'][1])))
        return yaml_io.load(yaml_io.parse('\n'.join(L) + '\n'), {}, tag='!ThermochemGroup')
    return ThermochemIncomplete(j.get('H'), j.get('S'), data, **kw)


def job_corr(j):
    """construct a raw / incomplete correlation (or fetch a library group's)
    and evaluate it"""
    for w_ in j.get('warm', []):
        # ANOTHER correlation with the same table but another reference temperature was evaluated at these temperatures first
        try:
            with warnings.catch_warnings(record=True):
                warnings.simplefilter('always')
                o_ = mk_raw(w_) if w_['cls'] == 'raw' else mk_inc(w_)
                eval_props(o_, j['evalTs'], ('s', 'h'))
        except Exception:
            pass
    try:
        with warnings.catch_warnings(record=True):
            warnings.simplefilter('always')
            if j['cls'] == 'raw':
                obj = mk_raw(j)
            elif j['cls'] == 'inc':
                obj = mk_inc(j)
            else:
                obj = get_lib(j['lib'])[j['name']]['thermochem']
    except Exception as e:
        return {'exc': exc_name(e), 'msg': str(e)[:200]}
    res = {'range': rng_of(obj), 'vals': eval_props(obj, j['evalTs'], j.get('props', ('cp', 'h', 's', 'g')))}
    if j.get('oracle'):
        res['oracle'] = spline_oracle(obj, j)
    # the same temperatures handed over as arrays (float dtype; integer dtype for the integral ones)
    inside = list(j['evalTs'][:j.get('n_inside', 0)])
    arrs = {}
    for kind, arr in (('float', np.array(inside, dtype=float)),
                      ('int', np.array([int(T) for T in inside if float(T).is_integer()], dtype=int))):
        if len(arr):
            try:
                with warnings.catch_warnings(record=True):
                    warnings.simplefilter('always')
                    out = np.asarray(obj.get_CpoR(arr))
                arrs[kind] = {'T': [float(t) for t in arr], 'v': [float(x) for x in out.ravel()]}
            except Exception as e:
                arrs[kind] = {'exc': exc_name(e), 'msg': str(e)[:100]}
    # array-like arguments with a member outside the valid range: refused like a scalar would be
    rg_ = rng_of(obj)
    if rg_ and inside:
        for kind, arr in (('outside-array', np.array([inside[0], rg_[1] + 25.0])), ('outside-list', [rg_[0] - 10.0, inside[0]]),
                          ('outside-0d', np.array(rg_[1] + 1.0))):
            try:
                with warnings.catch_warnings(record=True):
                    warnings.simplefilter('always')
                    out = np.asarray(obj.get_CpoR(arr), dtype=float)
                arrs[kind] = {'T': np.asarray(arr, dtype=float).ravel().tolist(), 'v': [float(x) for x in out.ravel()], 'outside': True}
            except Exception as e:
                arrs[kind] = {'exc': exc_name(e), 'msg': str(e)[:100], 'outside': True}
    res['cp_arrays'] = arrs
    if j.get('pairs'):
        from scipy.integrate import quad
        raw = obj if j['cls'] == 'raw' else getattr(obj, '_correlation', None)
        knots = sorted(float(t) for t in raw.Ts) if raw is not None else []
        ints = []
        for T1, T2 in j['pairs']:
            lo, hi = min(T1, T2), max(T1, T2)
            pts = [k for k in knots if lo < k < hi] or None
            try:
                with warnings.catch_warnings(record=True):
                    warnings.simplefilter('always')
                    a = quad(lambda t: float(obj.get_CpoR(t)), T1, T2, points=pts, limit=400, epsabs=1e-10, epsrel=1e-10)[0]
                    b = quad(lambda t: float(obj.get_CpoR(t)) / t, T1, T2, points=pts, limit=400, epsabs=1e-10, epsrel=1e-10)[0]
                ints.append({'Icp': float(a), 'IcpT': float(b)})
            except Exception as e:
                ints.append({'exc': exc_name(e)})
        res['integrals'] = ints
    if j['cls'] == 'lib':
        res['rec'] = {'T_ref': float(obj.T_ref),
                      'H': None if obj.ND_H_ref is None else num(obj.ND_H_ref),
                      'S': None if obj.ND_S_ref is None else num(obj.ND_S_ref),
                      'Ts': sorted(float(t) for t in obj.ND_Cp_data),
                      'Cps': [num(obj.ND_Cp_data[t]) for t in sorted(obj.ND_Cp_data)]}
    return res


def spline_oracle(obj, j):
    """values of the SciPy objects the implementation built, on a superset of
    the points its branch logic can ask for (DESIGN 5/C05 'Tie')"""
    raw = obj if j['cls'] == 'raw' else getattr(obj, '_correlation', None)
    if raw is None:
        return None
    from scipy.integrate import quad
    pts = sorted(set([float(raw.T_ref), float(min(raw.Ts)), float(max(raw.Ts))]
                     + [float(t) for t in j['evalTs']]))
    lo, hi = float(min(raw.Ts)), float(max(raw.Ts))
    inside = [p for p in pts if lo <= p <= hi]
    spl = {repr(p): float(raw.spline(p)) for p in inside}
    splint, quads = {}, {}
    starts = [p for p in (float(raw.T_ref), lo, hi) if lo <= p <= hi]
    for a in starts:
        for b in inside:
            splint['%r,%r' % (a, b)] = float(raw.spline.integral(a, b))
            # the integral itself (contract of the theorems C05_s_*): data points as break points, tight tolerance
            kn = [float(t) for t in raw.Ts if min(a, b) < t < max(a, b)]
            quads['%r,%r' % (a, b)] = float(quad(lambda t: raw.spline(t) / t, a, b, points=kn or None, limit=200 + 2 * len(kn),
                                                 epsabs=1e-13, epsrel=1e-13)[0])
    ln = {}
    for a in (float(raw.T_ref), lo, hi):
        for b in pts:
            if a > 0 and b > 0:
                ln['%r,%r' % (b, a)] = float(np.log(b / a))
    return {'spl': spl, 'splint': splint, 'quadS': quads, 'ln': ln,
            'knots': [[float(t), float(c)] for t, c in zip(raw.Ts, raw.ND_Cps)]}


def snap(o):
    return {'H': None if o.ND_H_ref is None else num(o.ND_H_ref), 'S': None if o.ND_S_ref is None else num(o.ND_S_ref),
            'tab': [[float(t), num(v)] for t, v in o.ND_Cp_data.items()] if o.ND_Cp_data else [],
            'range': rng_of(o), 'T_ref': float(o.T_ref), 'has_corr': hasattr(o, '_correlation')}


def job_update_seq(j):
    try:
        cur = mk_inc(j['init'])
    except Exception as e:
        return {'exc': exc_name(e)}
    out = []
    init_state = snap(cur)
    for st in j['steps']:
        try:
            other = mk_inc(st['other'])
        except Exception as e:
            out.append({'other_exc': exc_name(e)})
            continue
        before = snap(other)
        r = {}
        # ask the object for dimensional values BEFORE it is changed (whatever it remembers must not survive the change)
        warmT = [cur.T_ref, 400.0]
        for T in warmT:
            for nm, u in (('get_S', 'J/mol/K'), ('get_G', 'kJ/mol'), ('get_H', 'kJ/mol'), ('get_Cp', 'J/mol/K')):
                try:
                    with warnings.catch_warnings(record=True):
                        warnings.simplefilter('always')
                        getattr(cur, nm)(T, u)
                except Exception:
                    pass
        with warnings.catch_warnings(record=True):
            warnings.simplefilter('always')
            try:
                if st.get('overwrite') is None:
                    cur.update(other)
                else:
                    cur.update(other, st['overwrite'])
            except Exception as e:
                r['exc'] = exc_name(e)
                r['msg'] = str(e)[:120]
        r['state'] = snap(cur)
        r['other_unchanged'] = snap(other) == before
        if st.get('eval'):
            r['vals'] = eval_props(cur, st['eval'], ('cp', 'h', 's'))
        # the merged object must behave like a correlation constructed afresh from its own (reported) state
        stt = r['state']
        try:
            rg = stt['range']
            pts = sorted(set([stt['T_ref']] + [t for t, _ in stt['tab']] + (list(rg) + [0.5 * (rg[0] + rg[1]), rg[0] + 1e-3, rg[1] - 1e-3] if rg else [])))
            with warnings.catch_warnings(record=True):
                warnings.simplefilter('always')
                fresh = mk_inc({'H': None if stt['H'] is None else stt['H']['v'], 'S': None if stt['S'] is None else stt['S']['v'],
                                'Ts': [t for t, _ in stt['tab']], 'Cps': [v['v'] for _, v in stt['tab']], 'T_ref': stt['T_ref'], 'range': rg})
                r['self_vals'] = {'T': pts, 'cur': eval_props(cur, pts, ('cp', 'h', 's')), 'fresh': eval_props(fresh, pts, ('cp', 'h', 's'))}
                dimT = [T for T in warmT if (not rg or rg[0] <= T <= rg[1])]
                r['self_dim'] = {'T': dimT,
                                 'cur': {nm: [call(getattr(cur, nm), T, u) for T in dimT] for nm, u in (('get_S', 'J/mol/K'), ('get_G', 'kJ/mol'), ('get_H', 'kJ/mol'))},
                                 'fresh': {nm: [call(getattr(fresh, nm), T, u) for T in dimT] for nm, u in (('get_S', 'J/mol/K'), ('get_G', 'kJ/mol'), ('get_H', 'kJ/mol'))}}
        except Exception as e:
            r['self_vals'] = {'exc': exc_name(e)}
        out.append(r)
    return {'steps': out, 'init_state': init_state}


def job_lib_updates(j):
    """target.Update(src1); target.Update(src2); ... : no source library may be changed by being merged FROM"""
    with warnings.catch_warnings(record=True):
        warnings.simplefilter('always')
        tgt = GroupLibrary.Load(j['paths'][0])
        srcs = [GroupLibrary.Load(p) for p in j['paths'][1:]]

        def snaplib(lib):
            return {str(k): (snap(lib[k]['thermochem']) if 'thermochem' in lib[k] else None) for k in lib}
        before = [snaplib(x) for x in srcs]
        excs = []
        for x in srcs:
            try:
                tgt.Update(x, j.get('overwrite', False))
                excs.append(None)
            except Exception as e:
                excs.append(exc_name(e))
        after = [snaplib(x) for x in srcs]
    return {'excs': excs, 'changed': [i for i, (a, b) in enumerate(zip(before, after)) if a != b], 'target': snaplib(tgt)}


def job_load_tree(j):
    first = None
    if j.get('twice'):
        # the same path was loaded once before in this process (accepted or refused): the second load is what counts
        try:
            with warnings.catch_warnings(record=True):
                warnings.simplefilter('always')
                l0 = GroupLibrary.Load(j['path'])
            first = {str(k): (snap(l0[k]['thermochem']) if 'thermochem' in l0[k] else None) for k in l0}
            if j.get('then_update'):
                # ... and that first object was merged into (overwriting) from another library in between
                try:
                    l0.Update(GroupLibrary.Load(j['then_update']), overwrite=True)
                except Exception:
                    pass
        except Exception:
            pass
    try:
        with warnings.catch_warnings(record=True):
            warnings.simplefilter('always')
            lib = GroupLibrary.Load(j['path'])
    except Exception as e:
        return {'exc': exc_name(e), 'msg': str(e)[:200]}
    res = {}
    vals = {}
    for k in lib:
        ps = lib[k]
        res[str(k)] = snap(ps['thermochem']) if 'thermochem' in ps else None
        if j.get('evalTs') and 'thermochem' in ps:
            vals[str(k)] = eval_props(ps['thermochem'], j['evalTs'], ('cp', 'h', 's'))
    out = {'contents': res, 'order': [str(k) for k in lib], 'vals': vals}
    if first is not None:
        out['same_as_first'] = first == res
    return out


def job_yaml_roundtrip(j):
    from pgradd.ThermoChem import ThermochemGroup
    import tempfile
    import shutil
    try:
        if j.get('lib'):
            obj = get_lib(j['lib'])[j['name']]['thermochem']
        else:
            kw = {}
            if j.get('range') is not None:
                kw['range'] = tuple(j['range'])
            H_, S_, Ts_, Cps_ = j.get('H'), j.get('S'), j.get('Ts', []), j.get('Cps', [])
            if j.get('np_scalars'):
                # the caller's numbers are NumPy scalars (what arithmetic on arrays hands back)
                H_ = None if H_ is None else np.float64(H_)
                S_ = None if S_ is None else np.float64(S_)
                Cps_ = [np.float64(c) for c in Cps_]
                Ts_ = [np.float64(t) for t in Ts_]
            if j.get('via_update') and Ts_:
                # assembled by merging: the table first, the reference values from a second object
                obj = ThermochemGroup(None, None, dict(zip(Ts_, Cps_)), j['T_ref'], **kw)
                obj.update(ThermochemGroup(H_, S_, {}, j['T_ref'], **kw))
            else:
                obj = ThermochemGroup(H_, S_, dict(zip(Ts_, Cps_)), j['T_ref'], **kw)
    except Exception as e:
        return {'ctor_exc': exc_name(e)}
    before = snap(obj)
    out = {'before': before, 'variants': []}
    for units in j['units']:
        v = {'units': units}
        try:
            text = obj.yaml_format(units) if units is not None else obj.yaml_format()
            v['text'] = text
        except Exception as e:
            v['format_exc'] = exc_name(e)
            v['msg'] = str(e)[:200]
            out['variants'].append(v)
            continue
        d = tempfile.mkdtemp(dir=os.getcwd(), prefix='rt_')
        try:
            with open(os.path.join(d, 'scheme.yaml'), 'w') as f:
                f.write('patterns: []\n')
            with open(os.path.join(d, 'library.yaml'), 'w') as f:
                f.write("groups:\n  'X(Y)':\n    'thermochem':\n" + '\n'.join('      ' + ln for ln in text.split('\n')) + '\n')
            try:
                with warnings.catch_warnings(record=True):
                    warnings.simplefilter('always')
                    lib = GroupLibrary.Load(os.path.join(d, 'library.yaml'))
                v['after'] = snap(lib['X(Y)']['thermochem'])
            except Exception as e:
                v['load_exc'] = exc_name(e)
                v['msg'] = str(e)[:300]
            # direct route: parse + load with the registered class
            try:
                from pgradd import yaml_io
                with warnings.catch_warnings(record=True):
                    warnings.simplefilter('always')
                    o2 = yaml_io.load(yaml_io.parse(text), {}, tag='!ThermochemGroup')
                v['after_direct'] = snap(o2)
            except Exception as e:
                v['direct_exc'] = exc_name(e)
        finally:
            shutil.rmtree(d, ignore_errors=True)
        out['variants'].append(v)
    out['unchanged'] = snap(obj) == before
    # a correlation that was formatted, then changed, then formatted again (same units): the text must describe its state NOW
    if j.get('mutate') and out['variants'] and 'text' in out['variants'][0]:
        units = out['variants'][0]['units']
        m = {'how': j['mutate']}
        try:
            with warnings.catch_warnings(record=True):
                warnings.simplefilter('always')
                if j['mutate'] == 'del_H':
                    obj.del_ND_H_ref()
                elif j['mutate'] == 'del_S':
                    obj.del_ND_S_ref()
                elif j['mutate'] == 'del_Cp':
                    obj.del_ND_Cp()
                elif j['mutate'] == 'set_range':
                    r0 = rng_of(obj)
                    obj.set_range((r0[0] - 7.5, r0[1] + 11.0) if r0 else (40.0, 2500.0))
            m['state'] = snap(obj)
            text = obj.yaml_format(units) if units is not None else obj.yaml_format()
            m['text'] = text
            d = tempfile.mkdtemp(dir=os.getcwd(), prefix='rt_')
            try:
                with open(os.path.join(d, 'scheme.yaml'), 'w') as f:
                    f.write('patterns: []\n')
                with open(os.path.join(d, 'library.yaml'), 'w') as f:
                    f.write("groups:\n  'X(Y)':\n    'thermochem':\n" + '\n'.join('      ' + ln for ln in text.split('\n')) + '\n')
                with warnings.catch_warnings(record=True):
                    warnings.simplefilter('always')
                    lib = GroupLibrary.Load(os.path.join(d, 'library.yaml'))
                m['after'] = snap(lib['X(Y)']['thermochem'])
            finally:
                shutil.rmtree(d, ignore_errors=True)
        except Exception as e:
            m['exc'] = exc_name(e)
            m['msg'] = str(e)[:200]
        out['mutated'] = m
    return out


def job_groupdim(j):
    from pmutt import constants as pc
    corr = get_lib(j['lib'])[j['name']]['thermochem']
    res = {'vals': eval_props(corr, j['Ts'], ('cp', 'h', 's', 'g')), 'has_table': bool(corr.ND_Cp_data), 'T_ref': float(corr.T_ref), 'dim': {}, 'Rtab': {}}
    for u in j['units']:
        res['Rtab'][u + '/K'] = pc.R(u + '/K')
        res['dim'][u] = {nm: [call(getattr(corr, nm), T, *args) for T in j['Ts']]
                         for nm, args in (('get_H', (u,)), ('get_G', (u,)), ('get_S', (u + '/K',)), ('get_Cp', (u + '/K',)))}
    return res


JOBS = {'lib_updates': job_lib_updates, 'groupdim': job_groupdim, 'yaml_roundtrip': job_yaml_roundtrip, 'update_seq': job_update_seq, 'load_tree': job_load_tree, 'estimate': job_estimate, 'libinfo': job_libinfo, 'corr': job_corr}


def main():
    p = read_payload()
    out = []
    with quiet():
        for j in p['cases']:
            try:
                out.append(JOBS[j['op']](j))
            except Exception as e:
                import traceback
                out.append({'job_exc': exc_name(e), 'msg': str(e)[:300],
                            'tb': traceback.format_exc()[-600:]})
    write_result({'results': out})


main()
