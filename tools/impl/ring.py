"""Child for the RING properties (C08, C09, C16): parse / read / match."""
import signal
import sys
from common import read_payload, write_result, quiet, exc_name, silence_rdkit

silence_rdkit()
from rdkit import Chem  # noqa: E402
from pgradd.RINGParser import Read  # noqa: E402
from pgradd.RINGParser import Parser as P  # noqa: E402
from pgradd.Error import RINGSyntaxError  # noqa: E402


class Timeout(Exception):
    pass


def _alarm(*a):
    raise Timeout()


def tree_json(t):
    if isinstance(t, list):
        return {'n': t[0].name, 'k': [tree_json(x) for x in t[1:]]}
    if isinstance(t, bool):
        return {'b': t}
    if isinstance(t, int):
        return {'i': t}
    return {'s': t}


def exc_info(e):
    r = {'exc': exc_name(e), 'msg': str(e)[:160] if not isinstance(e, RINGSyntaxError) else ''}
    if isinstance(e, RINGSyntaxError):
        r['line'], r['col'] = e.lineno, e.colno
    return r


def graph_of(mol):
    """the molecule as GetQueryMatches sees it (hydrogens added), exported with public calls only"""
    m = Chem.AddHs(mol)
    ri = m.GetRingInfo()
    atoms = [[a.GetAtomicNum(), a.GetFormalCharge(), a.GetNumRadicalElectrons(), bool(a.GetIsAromatic()), bool(a.IsInRing())]
             for a in m.GetAtoms()]
    bonds = []
    for b in m.GetBonds():
        sa = list(b.GetStereoAtoms())
        bonds.append([b.GetBeginAtomIdx(), b.GetEndAtomIdx(), str(b.GetBondType()), bool(b.IsInRing()), str(b.GetStereo()), sa])
    return {'atoms': atoms, 'bonds': bonds, 'rings': [list(r) for r in ri.AtomRings()]}


def job(j):
    op = j['op']
    if op == 'parse':
        try:
            return {'tree': tree_json(P.parse(j['text']))}
        except Timeout:
            raise
        except RecursionError:
            return {'exc': 'RecursionError'}
        except Exception as e:
            return exc_info(e)
    if op == 'read':
        try:
            q = Read(j['text'])
            return {'ok': type(q).__name__}
        except Timeout:
            raise
        except RecursionError:
            return {'exc': 'RecursionError'}
        except Exception as e:
            return exc_info(e)
    if op == 'match':
        try:
            q = Read(j['text'])
        except Timeout:
            raise
        except RecursionError:
            return {'read_exc': 'RecursionError'}
        except Exception as e:
            return {'read_exc': exc_name(e), 'info': exc_info(e)}
        out = []
        smiles = list(j['smiles'])
        if j.get('respell') is not None:
            # the same species again under another atom numbering, matched with the SAME query object
            import random
            rng = random.Random(j['respell'])
            for smi in j['smiles'][:3]:
                m0 = Chem.MolFromSmiles(smi)
                if m0 is not None and m0.GetNumAtoms() > 1:
                    perm = list(range(m0.GetNumAtoms()))
                    rng.shuffle(perm)
                    smiles.append(Chem.MolToSmiles(Chem.RenumberAtoms(m0, perm), canonical=False))
        for smi in smiles:
            mol = Chem.MolFromSmiles(smi)
            if mol is None:
                out.append({'bad_smiles': True})
                continue
            try:
                ms = q.GetQueryMatches(mol)
                r = {'matches': sorted(list(map(int, m)) for m in ms)}
            except Timeout:
                raise
            except Exception as e:
                r = {'exc': exc_name(e), 'msg': str(e)[:120]}
            if j.get('graphs'):
                r['graph'] = graph_of(mol)
            out.append(r)
        return {'results': out, 'smiles': smiles}
    if op == 'run_rule':
        try:
            q = Read(j['text'])
        except Timeout:
            raise
        except RecursionError:
            return {'read_exc': 'RecursionError'}
        except Exception as e:
            return {'read_exc': exc_name(e), 'info': exc_info(e)}
        out = []
        for smi in j['smiles']:
            mol = Chem.MolFromSmiles(smi)
            if mol is None:
                out.append({'bad_smiles': True})
                continue
            mol = Chem.AddHs(mol)
            for a in mol.GetAtoms():
                a.SetAtomMapNum(a.GetIdx() + 1)
            r = {'graph': graph_of(mol), 'natoms': mol.GetNumAtoms()}
            try:
                prods = q.RunReactants(mol)
                sets = []
                for ps in prods:
                    atoms, bonds = {}, []
                    for frag in ps:
                        loc = {}
                        for a in frag.GetAtoms():
                            o = a.GetAtomMapNum() - 1
                            loc[a.GetIdx()] = o
                            atoms[o] = [a.GetAtomicNum(), a.GetFormalCharge(), a.GetNumRadicalElectrons()]
                        for b in frag.GetBonds():
                            bonds.append([loc[b.GetBeginAtomIdx()], loc[b.GetEndAtomIdx()], str(b.GetBondType())])
                    sets.append({'atoms': [atoms.get(i) for i in range(mol.GetNumAtoms())], 'bonds': bonds, 'nfrag': len(ps)})
                r['products'] = sets
                r['nmatch'] = len(q.reactantquery[list(q.reactantquery)[0]].GetQueryMatches(mol))
                # the same run on the molecule WITHOUT the harness's atom-map numbers: fragments and atoms per product set
                plain = Chem.AddHs(Chem.MolFromSmiles(smi))
                r['plain'] = [{'nfrag': len(ps), 'natoms': sum(f.GetNumAtoms() for f in ps)} for ps in q.RunReactants(plain)]
            except Timeout:
                raise
            except Exception as e:
                r['exc'] = exc_name(e)
                r['msg'] = str(e)[:120]
            out.append(r)
        return {'results': out}
    return {'exc': 'BadJob'}


def main():
    sys.setrecursionlimit(1000)
    p = read_payload()
    out = []
    signal.signal(signal.SIGALRM, _alarm)
    with quiet():
        for j in p['cases']:
            signal.alarm(int(j.get('timeout', 5)))
            try:
                out.append(job(j))
            except Timeout:
                out.append({'exc': 'Timeout'})
            except RecursionError:
                out.append({'exc': 'RecursionError'})
            finally:
                signal.alarm(0)
    write_result({'results': out})


main()
