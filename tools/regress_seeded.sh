#!/bin/bash
# re-run every seeded change (seeded/<P>_<mN>/patch.diff) against the check of its property; prints the ones that are NOT caught
# (mutates /repo between `git apply` and `git checkout -- .`: run nothing else against /repo meanwhile)
cd "$(dirname "$0")/.."
miss=0
for d in seeded/*/; do
  id=$(basename $d); P=${id%%_*}
  [ -n "$ONLY" ] && [[ ! "$id" =~ $ONLY ]] && continue
  if ! git -C /repo apply --check "$PWD/$d/patch.diff" 2>/dev/null; then echo "$id: patch no longer applies (code changed since)"; continue; fi
  out=$(bash tools/try_mutation.sh "$PWD/$d/patch.diff" $P 2>&1 | tail -1)
  if echo "$out" | grep -q "exit=1"; then echo "$id: caught"; else echo "$id: MISSED :: $out"; miss=$((miss+1)); fi
done
echo "missed=$miss"
