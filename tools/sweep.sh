#!/bin/bash
# run every claimed check over several seeds; print one line per run
cd "$(dirname "$0")/.."
/venv/bin/python check.py --setup >/dev/null 2>&1
for sd in ${SEEDS:-1 2 3 4 5}; do
  for p in $(python3 -c "import json;print(' '.join(c['property_id'] for c in json.load(open('MANIFEST.json'))['checks']))"); do
    out=$(VERIF_SEED=$sd timeout ${TMO:-1800} /venv/bin/python check.py $p --tier ${TIER:-quick} 2>&1); rc=$?
    echo "seed=$sd $p $(date +%H:%M) exit=$rc $(echo "$out" | grep -c VIOLATION) violations :: $(echo "$out" | grep -m2 'what:' | tr '\n' ' ')"
  done
done
