"""Molecule generator (DESIGN 5.21): SMILES composed from templates, not
sampled from a fixed list.  Validity is decided by RDKit in the children."""

GAS_CORE = ['C', 'CC', 'CCC', 'C(C)C', 'C(C)(C)C', 'CCCC', 'C=C', 'C#C', 'C(=O)', 'O', 'OC', 'CO',
            'C1CC1', 'C1CCC1', 'C1CCCC1', 'C1CCCCC1', 'C1CCCCCC1', 'c1ccccc1', 'C1=CCCC1', 'C1=CCCCC1',
            'C1CO1', 'C1CCOC1', 'C=CC=C', 'C(=O)O', 'C(=O)OC', 'C(C)=C', 'C(O)', 'C(O)C', 'C=C=C', 'c1ccc(C)cc1',
            'C(=O)C', 'c1ccc2ccccc2c1', 'C1CC2CCC1C2', 'C1CCC2(CC1)CC2', 'c1ccoc1', 'C=O', 'OO']
GAS_RAD = ['[CH2]', '[CH]', '[O]', '[CH](C)', '[C](C)(C)', '[C]=C', '[CH]=C']
GAS_N = ['N', 'N(C)', 'C#N', 'C=N', 'NC(=O)']
CISTRANS = ['C/C=C\\C', 'C/C=C/C', 'CC/C=C\\CC', 'C/C=C\\CCC', 'C/C(C)=C\\C', 'C/C=C\\C=C', 'CCCC/C=C\\CCCCCC',
            'C/C=C\\C/C=C\\C']
OUT_OF_VOCAB = ['CS', 'CP', 'CCl', 'CF', 'C[N+](C)(C)C', 'C[O-]', '[Na+].[Cl-]', 'CBr', 'C[Si](C)(C)C', 'S', 'c1ccsc1',
                'C[Au]', 'CB', '[He]']
SURF_CORE = ['C(M)', 'C(M)(M)', 'C(M)(M)(M)', 'C(M)C', 'C(M)(M)C', 'C(M)(M)(M)C', 'C(M)CM', 'O(M)', 'C(=O)(M)',
             'C(M)(O)', 'C(M)(M)O', 'C(M)=O', 'C(M)(M)C(M)(M)', 'C(M)(M)C(M)(M)C=O', 'C(=O)(M)O', 'C(M)(M)(M)C(M)(M)(M)',
             'C(M)C(M)', 'C(M)(M)C(M)(M)(M)', 'C(M)=C(M)', 'C(M)O', 'C(O)(M)C', 'C(M)(M)=C', 'C(M)(C)C', 'C(M)(C)(C)C',
             'C(M)(M)(C)C', 'C(M)C=O', 'C(M)(M)C(=O)O', 'C(M)C(O)CO', 'C(M)(M)C(O)C(M)O', 'C(O(M))C', 'OC(M)C(M)O']
SURF_TAIL = ['', 'C', 'CC', 'O', 'C=O', 'C(=O)O', 'CO', 'C(O)C', 'C(M)', 'C(M)(M)', 'C(M)(M)(M)']

METAL = {'SalciccioliGA2012': 'Pt', 'GuSolventGA2017Aq': 'Pt', 'GuSolventGA2017Vac': 'Pt', 'GRWSurface2018': 'Pt',
         'GRWAqueous2018': 'Pt', 'PtSurface2023': 'Pt', 'XieGA2022': 'Ru'}
GAS_LIBS = ('BensonGA', 'PPY')


def rnd_gas(rng, rich=True):
    k = rng.random()
    if k < 0.08:
        return rng.choice(CISTRANS)
    n = rng.choice([1, 1, 2, 2, 3, 4])
    pool = GAS_CORE + (GAS_RAD if rich and rng.random() < 0.3 else []) + (GAS_N if rich and rng.random() < 0.15 else [])
    parts = [rng.choice(pool) for _ in range(n)]
    s = ''
    for i, p in enumerate(parts):
        if i > 0 and rng.random() < 0.3 and not s.endswith(')'):
            s += '(' + p + ')'
            if i == len(parts) - 1:
                s += rng.choice(['C', 'O', 'CC'])
        else:
            s += p
    return s


def rnd_surface(rng, metal='Pt'):
    n = rng.choice([1, 1, 1, 2])
    s = ''.join(rng.choice(SURF_CORE) for _ in range(n)) + rng.choice(SURF_TAIL)
    if rng.random() < 0.15:
        s = rng.choice(['C', 'CC', 'O']) + s
    return s.replace('(M)', '([%s])' % metal).replace('M', '[%s]' % metal)


def rnd_for_lib(rng, lib):
    if lib in GAS_LIBS:
        return rnd_gas(rng)
    m = METAL.get(lib, 'Pt')
    if lib == 'XieGA2022' and rng.random() < 0.3:
        return rnd_gas(rng, rich=False)
    return rnd_surface(rng, m)


def pool_for_lib(rng, lib, n, with_bad=0.1):
    out = []
    seen = set()
    tries = 0
    while len(out) < n and tries < n * 30:
        tries += 1
        s = rng.choice(OUT_OF_VOCAB) if rng.random() < with_bad else rnd_for_lib(rng, lib)
        if s not in seen:
            seen.add(s)
            out.append(s)
    return out
